"""C30 — recorded boundary data decompresses to what was recorded.

The recorder is a store: `compress(t)` is a write, `decompress(t)` a read.  LinearReconstructEveryK
drops writes on purpose, DtypeConversion re-encodes them.  One run = one (T, pipeline); inside it EVERY
(k <= 8, start < T) is enumerated.  Per configuration: writes t = 0..T-1 in solver order, reads in
reverse-sweep order, in a seeded random order and in a restarted descending sweep; then a second run
with a different history on the SAME recorder state (stale records must not leak).
Model: dict t -> value plus the documented rule: saved steps (start, start+k, ... and the last step)
are returned as recorded, every other t >= start is the linear interpolation between the two enclosing
saved steps.  Steps before `start` are outside the statement and are not checked.
"""
from __future__ import annotations

import copy

import numpy as np

from fdsim import specgen

PROPERTY = "C30"
LEVEL = "fault_enumeration"
EXHAUSTIVE_INNER = True
PIPELINES = [[], ["everyk"], ["dtype"], ["everyk", "dtype"], ["dtype", "everyk"]]


def _table(tier):
    """run index -> (T, pipeline).  quick: all five pipelines for T <= 3, the single-module pipelines (incl. the bare every-k filter, i.e.
    the index arithmetic itself) up to T = 6; thorough: all five pipelines for every T <= 40.  One configuration costs ~0.16 CPU-s
    (tracing + XLA compilation of the real compress / decompress; nothing is shared between configurations because k / start / index maps
    are static fields), so the complete table up to T = 16 (3264 configurations, ~9 CPU-minutes) does not fit into a 120 s quick budget."""
    if tier == "quick":
        return [(T, p) for T in range(1, 4) for p in PIPELINES] + [(T, p) for T in range(4, 7) for p in ([], ["everyk"], ["dtype"])] + [(T, ["everyk", "everyk"]) for T in (7, 10, 14)]
    return [(T, p) for T in range(1, 41) for p in PIPELINES] + [(T, ["everyk", "everyk"]) for T in range(4, 33)]


RUNS = {"quick": len(_table("quick")), "thorough": len(_table("thorough"))}
RUN_TIMEOUT_S = 900
SHRINK_BUDGET = {"quick": 120, "thorough": 400}
K_MAX = 8
RULE = (
    "run index -> (T, pipeline): pipelines [], [everyk], [dtype], [everyk,dtype], [dtype,everyk] x T = 1..3 plus the single-module pipelines for T = 4..6 (quick) / all five x T = 1..40 (thorough); inside a run ALL k = 1..8 and "
    "ALL start = 0..T-1 are enumerated (complete inner space); value histories are seeded random arrays (1-2 named entries, float32/float64/complex64/complex128), "
    "dtype conversions only widening (f32->f64, c64->c128, f32->c64, f64->c128, identity). Valid read schedules: decompress is a pure function of (state, t) - the real "
    "reverse pass reads in descending t - so descending sweep, seeded random order and a restarted descending sweep are all valid and all used; a second write pass with a "
    "different history over the same state precedes a second read pass. non-trivial = at least one interpolated read at t >= start; "
    "distinct = pipeline x dtype pair x T"
)
REAL = ["Recorder.init_state / compress / decompress", "LinearReconstructEveryK.init_shapes / time_to_array_index / indices_to_decompress / decompress", "DtypeConversion",
        "jax.jit + lax.scan with traced time_step (as in the solver loops)"]
STUB = ["values are random arrays, not PML interface fields", "init_state runs with jax.disable_jit() (same Python, primitive-by-primitive dispatch; one configuration per k is cross-checked against the normal dispatch)", "write and read loops are lax.scan over the real compress / decompress, several start values traced into one XLA program"]
ASSUMPTIONS = [
    "saved steps are start, start+k, ... and the final step T-1 (so that every t >= start has two enclosing saved steps)",
    "saved steps must be returned bit-exactly (also through a widening dtype conversion); interpolated steps within 32 ulp of max(input dtype, float32) relative to the history maximum (the library's weight is a float32 quotient)",
    "interpolated reads are judged only in configurations whose saved steps all read back correctly (a wrong record is reported once, as saved_step_mismatch); "
    "second-run monitors fire only where the first run was right (a genuine stale-record leak)",
    "reads at t < start are outside the statement and not compared",
]
TECHNIQUE = "deterministic simulation of a lossy store: complete enumeration of (k, start) per (T, pipeline), seeded write histories, multiple read orders and a second-run overwrite against a dict + linear-interpolation model"
LEVEL_TEXT = (
    "Inner space (k <= 8, every start < T) enumerated completely for every T up to the tier bound and all five pipelines; value histories and read orders are sampled. "
    "A clean table shows the index arithmetic is right for every enumerated (T, k, start, t); values are evidence only."
)
LEVEL_NOTE = "complete over (T, k, start, t) within the bounds, sampled over values/dtypes/shapes; compress/decompress run under jit with traced time step"

DTYPE_PAIRS = [["float32", "float64"], ["complex64", "complex128"], ["float32", "complex64"], ["float64", "complex128"], ["float32", "float32"], ["float64", "float64"]]


def generate(rng, tier, index):
    table = _table(tier)
    T, pipeline = table[index % len(table)]
    pipeline = list(pipeline)
    if "dtype" in pipeline:
        in_dt, conv = DTYPE_PAIRS[int(rng.integers(0, len(DTYPE_PAIRS)))]
    else:
        in_dt, conv = ["float32", "float64", "complex64", "complex128"][int(rng.integers(0, 4))], None
    n_keys = 1 if rng.uniform() < 0.75 else 2
    shapes = {}
    for i in range(n_keys):  # interface records are (3, a, b) arrays in the solver
        shapes[f"pml{i}_{'EH'[i % 2]}"] = [3] + [int(rng.integers(1, 4)) for _ in range(2)]
    stacked = None
    if pipeline == ["everyk", "everyk"]:
        stacked = []
        for _ in range(10):
            k1 = int(rng.integers(1, 5))
            s1 = int(rng.integers(0, max(1, T // 3)))
            n1 = len(saved_steps(T, k1, s1))
            k2 = int(rng.integers(1, 5))
            if k1 == 1 and k2 == 1:
                # two filters that both keep every step carry equal-shaped index arrays as pytree metadata; jax then fails to
                # compare the two branches of the library's lax.cond at trace time ("arrays cannot be passed as metadata
                # fields") - a degenerate pipeline (identity twice), seen at seed 7 and noted in DESIGN 10, not generated
                k2 = 2
            stacked.append([k1, s1, k2, int(rng.integers(0, max(1, n1 // 2)))])
    return {
        "stacked": stacked,
        "T": T,
        "pipeline": pipeline,
        "k_max": K_MAX,
        "in_dtype": in_dt,
        "conv_dtype": conv,
        "shapes": shapes,
        "hist_seed": int(rng.integers(0, 2**31)),
        "order_seed": int(rng.integers(0, 2**31)),
        "key": int(rng.integers(0, 2**31)),
    }


def configs_of(spec):
    if "everyk" not in spec["pipeline"]:
        return [[None, None]]
    if spec.get("only") is not None:
        return [list(x) for x in spec["only"]]
    return [[k, s] for k in range(1, spec["k_max"] + 1) for s in range(spec["T"])]


def shrink(spec):
    out = []
    cfgs = configs_of(spec)
    if len(cfgs) > 1:
        for c in cfgs:  # ordered by k then start: the first reproducing candidate is the smallest
            s = copy.deepcopy(spec)
            s["only"] = [c]
            out.append(s)
        return out
    if spec["T"] > 1:
        s = copy.deepcopy(spec)
        s["T"] = spec["T"] - 1
        if s.get("only"):
            s["only"] = [[k, st] for k, st in s["only"] if st is None or st < s["T"]]
        if s.get("only") != []:
            out.append(s)
    if spec.get("only") and spec["only"][0][0] is not None:
        k, st = spec["only"][0]
        for k2, st2 in ((k - 1, st), (k, st - 1)):
            if k2 >= 1 and st2 >= 0:
                s = copy.deepcopy(spec)
                s["only"] = [[k2, st2]]
                out.append(s)
    if len(spec["shapes"]) > 1:
        s = copy.deepcopy(spec)
        s["shapes"].pop(sorted(s["shapes"])[-1])
        out.append(s)
    for nm, shp in spec["shapes"].items():
        if shp != [3, 1, 1]:
            s = copy.deepcopy(spec)
            s["shapes"][nm] = [3, 1, 1]
            out.append(s)
    if len(spec["pipeline"]) > 1:
        for i in range(len(spec["pipeline"])):
            s = copy.deepcopy(spec)
            s["pipeline"] = [m for j, m in enumerate(spec["pipeline"]) if j != i]
            if "everyk" not in s["pipeline"]:
                s.pop("only", None)
            out.append(s)
    return out


# ------------------------------------------------------------------ model


def saved_steps(T, k, start):
    s = list(range(start, T, k))
    if s[-1] != T - 1:
        s.append(T - 1)
    return s


def model_read(hist, T, k, start, t):
    """Documented rule: recorded value at saved steps, linear interpolation between the enclosing saved steps otherwise."""
    if k is None:
        return hist[t], True
    sv = saved_steps(T, k, start)
    if t in sv:
        return hist[t], True
    prev = max(x for x in sv if x < t)
    nxt = min(x for x in sv if x > t)
    w = (t - prev) / (nxt - prev)
    return hist[prev] + w * (hist[nxt] - hist[prev]), False


def _np_dtype(name):
    return {"float32": np.float32, "float64": np.float64, "complex64": np.complex64, "complex128": np.complex128}[name]


def _history(seed, T, shapes, dtype):
    r = np.random.Generator(np.random.PCG64(seed))
    out = {}
    for nm in sorted(shapes):
        a = r.normal(size=(T, *shapes[nm])) * np.exp(r.uniform(-2, 2))
        if np.issubdtype(dtype, np.complexfloating):
            a = a + 1j * r.normal(size=(T, *shapes[nm]))
        out[nm] = a.astype(dtype)
    return out


def _exec_stacked(spec):
    """Two stacked save-every-k filters (the second thins the first one's slots).  The composite of two linear interpolations in
    different index spaces is not pinned down by the statement, so only its unambiguous part is judged: a step that survives
    BOTH filters is returned exactly, the last step always survives, every read at or after the first surviving step is finite
    and does not depend on the read order; a second run on the same recorder state must not see the first run's records."""
    import hashlib

    import fdtdx
    import jax
    import jax.numpy as jnp

    T = int(spec["T"])
    in_dt = _np_dtype(spec["in_dtype"])
    shapes = spec["shapes"]
    key = jax.random.PRNGKey(int(spec["key"]))
    jdt = {"float32": jnp.float32, "float64": jnp.float64, "complex64": jnp.complex64, "complex128": jnp.complex128}
    hists = [_history(spec["hist_seed"] + i, T, shapes, in_dt) for i in range(2)]
    ro = np.random.Generator(np.random.PCG64(spec["order_seed"]))
    reads = list(range(T - 1, -1, -1)) + [int(x) for x in ro.permutation(T)]
    viol, stats, digest = [], {"configs": 0, "writes": 0, "reads": 0, "reads_checked": 0, "probe_pipeline_everyk_everyk": 1}, hashlib.sha256()
    nontrivial = False
    for k1, s1, k2, s2 in spec["stacked"]:
        sv1 = saved_steps(T, k1, s1)
        if len(sv1) < 1 or s2 >= len(sv1):
            continue
        sv2 = saved_steps(len(sv1), k2, s2)
        both = [sv1[j] for j in sv2]
        try:
            with jax.disable_jit():
                rec = fdtdx.Recorder(modules=[fdtdx.LinearReconstructEveryK(k=int(k1), start_recording_after=int(s1)), fdtdx.LinearReconstructEveryK(k=int(k2), start_recording_after=int(s2))])
                rec, state = rec.init_state(input_shape_dtypes={nm: jax.ShapeDtypeStruct(tuple(shp), jdt[spec["in_dtype"]]) for nm, shp in shapes.items()}, max_time_steps=T, backend="cpu")
        except ValueError:
            stats["rejected_configs"] = stats.get("rejected_configs", 0) + 1
            continue
        stats["configs"] += 1
        def session(st, hist_, reads_, rec=rec):
            def w(s_, xt):
                vals_, t_ = xt
                return rec.compress(vals_, s_, t_, key), None

            st, _ = jax.lax.scan(w, st, (hist_, jnp.arange(T, dtype=jnp.int32)))

            def rd(s_, t_):
                vals_, s_ = rec.decompress(s_, t_, key)
                return s_, vals_

            return jax.lax.scan(rd, st, reads_)

        jsession = jax.jit(session)
        for run, hist in enumerate(hists):
            state, outs = jsession(state, {nm: jnp.asarray(hist[nm]) for nm in shapes}, jnp.asarray(reads, dtype=jnp.int32))
            outs = {nm: np.asarray(v) for nm, v in outs.items()}
            stats["writes"] += T
            first = {}
            for ri, t in enumerate(reads):
                vals = {nm: outs[nm][ri] for nm in shapes}
                stats["reads"] += 1
                if t < both[0]:
                    continue
                stats["reads_checked"] += 1
                for nm in sorted(shapes):
                    got = np.asarray(vals[nm])
                    digest.update(np.ascontiguousarray(got).tobytes())
                    info = {"monitor": None, "T": T, "pipeline": spec["pipeline"], "in_dtype": spec["in_dtype"], "conv_dtype": None, "k": [k1, k2], "start": [s1, s2], "t": t, "key": nm, "run": run + 1, "saved_by_both": both}
                    if t in both:
                        nontrivial = True
                        if not np.array_equal(got, hist[nm][t]):
                            viol.append({**info, "monitor": "saved_step_mismatch" if run == 0 else "second_run_saved_step_mismatch", "stale": bool(run == 1 and np.array_equal(got, hists[0][nm][t]))})
                    elif not np.all(np.isfinite(got)):
                        viol.append({**info, "monitor": "interpolated_value_not_finite"})
                    if (nm, t) in first and not np.array_equal(first[(nm, t)], got, equal_nan=True):
                        viol.append({**info, "monitor": "read_order_dependent"})
                    first.setdefault((nm, t), got)
            if viol:
                break
        if viol:
            break
    seen = set()
    viol = [v for v in viol if not (v["monitor"] in seen or seen.add(v["monitor"]))]
    stats["fault_dropped_write"] = stats["configs"]
    return {"violations": viol, "stats": stats, "residuals": {}, "nontrivial": nontrivial, "signature": specgen.signature("C30", spec["pipeline"], spec["in_dtype"], None, T),
            "digest": digest.hexdigest()[:16] + f":v{len(viol)}"}


def execute(spec):
    if spec["pipeline"] == ["everyk", "everyk"]:
        return _exec_stacked(spec)
    import hashlib

    import fdtdx
    import jax
    import jax.numpy as jnp

    T = int(spec["T"])
    in_dt = _np_dtype(spec["in_dtype"])
    shapes = spec["shapes"]
    key = jax.random.PRNGKey(int(spec["key"]))
    jdt = {"float32": jnp.float32, "float64": jnp.float64, "complex64": jnp.complex64, "complex128": jnp.complex128}
    hist_a = _history(spec["hist_seed"], T, shapes, in_dt)
    hist_b = _history(spec["hist_seed"] + 1, T, shapes, in_dt)
    ro = np.random.Generator(np.random.PCG64(spec["order_seed"]))
    reverse = list(range(T - 1, -1, -1))
    rand_order = [int(x) for x in ro.permutation(T)]
    restart_from = int(ro.integers(0, T))
    restart = list(range(restart_from, -1, -1))
    reads_a = reverse + rand_order + restart
    read_kind = ["reverse"] * T + ["random"] * T + ["restart"] * len(restart)
    reads_b = reads_a  # same read schedule (and therefore the same XLA program) for the second run
    eps_in = float(np.finfo(in_dt).eps)
    # the library forms the interpolation weight as int32 / int32, i.e. in float32, whatever the record dtype is; the statement
    # promises linear interpolation, not a weight in the record's precision, so the criterion is 32 ulp of max(input, float32)
    # precision.  Reads that miss the input-precision bound are counted (probe_interpolation_beyond_input_precision), not failed.
    eps = max(eps_in, float(np.finfo(np.float32).eps))

    def make_recorder(k, start):
        mods = []
        for m in spec["pipeline"]:
            if m == "everyk":
                mods.append(fdtdx.LinearReconstructEveryK(k=int(k), start_recording_after=int(start)))
            else:
                mods.append(fdtdx.DtypeConversion(dtype=jdt[spec["conv_dtype"]]))
        rec = fdtdx.Recorder(modules=mods)
        sd = {nm: jax.ShapeDtypeStruct(tuple(shp), jdt[spec["in_dtype"]]) for nm, shp in shapes.items()}
        return rec.init_state(input_shape_dtypes=sd, max_time_steps=T, backend="cpu")

    def session(rec, state, hist, reads):
        """T writes in solver order, then the reads, threading the state through both loops."""

        def w(st, xt):
            vals, t = xt
            return rec.compress(vals, st, t, key), None

        state, _ = jax.lax.scan(w, state, (hist, jnp.arange(T, dtype=jnp.int32)))

        def rd(st, t):
            vals, st = rec.decompress(st, t, key)
            return st, vals

        state, outs = jax.lax.scan(rd, state, reads)
        return state, outs

    viol, stats, resid = [], {"configs": 0, "writes": 0, "reads": 0, "reads_checked": 0}, {}
    per_monitor = {}
    digest = hashlib.sha256()

    def V(monitor, **kw):
        per_monitor[monitor] = per_monitor.get(monitor, 0) + 1
        stats["violations_" + monitor] = per_monitor[monitor]
        if per_monitor[monitor] <= 4:
            viol.append({"monitor": monitor, "T": T, "pipeline": spec["pipeline"], "in_dtype": spec["in_dtype"], "conv_dtype": spec["conv_dtype"], **kw})

    def fault(kind, n=1):
        stats["fault_" + kind] = stats.get("fault_" + kind, 0) + n

    cfgs = configs_of(spec)
    ja = {nm: jnp.asarray(v) for nm, v in hist_a.items()}
    jb = {nm: jnp.asarray(v) for nm, v in hist_b.items()}
    jra, jrb = jnp.asarray(reads_a, dtype=jnp.int32), jnp.asarray(reads_b, dtype=jnp.int32)
    scale = {nm: max(float(np.max(np.abs(hist_a[nm]))), float(np.max(np.abs(hist_b[nm]))), 1e-30) for nm in shapes}
    nontrivial = False
    wide = [{nm: h[nm].astype(np.complex128 if np.iscomplexobj(h[nm]) else np.float64) for nm in shapes} for h in (hist_a, hist_b)]

    # group by k so that all start values share one XLA program
    groups = {}
    for k, s in cfgs:
        groups.setdefault(k, []).append(s)
    for k in sorted(groups, key=lambda x: (x is None, x)):
        starts = groups[k]
        try:
            # init_state is eager set-up code that re-compiles a helper on every call (~0.1 s); with jit disabled the
            # same Python runs primitive by primitive (4 ms).  One configuration per group is also initialised the
            # normal way and must give the identical index maps.
            with jax.disable_jit():
                recs = [make_recorder(k, s) for s in starts]
            if k is not None:
                ci = int(ro.integers(0, len(starts)))
                ref_rec, _ = make_recorder(k, starts[ci])
                for a, b in zip(ref_rec.modules, recs[ci][0].modules):
                    for fld in ("_save_time_steps", "_time_to_arr_idx"):
                        if hasattr(a, fld) and not np.array_equal(np.asarray(getattr(a, fld)), np.asarray(getattr(b, fld))):
                            from fdsim import env

                            raise env.HarnessError(f"init_state differs with jit disabled ({fld}, T={T}, k={k}, start={starts[ci]})")
                stats["init_cross_checked"] = stats.get("init_cross_checked", 0) + 1
        except ValueError as e:
            return {"rejected": True, "nontrivial": False, "stats": {"rejected": 1}, "digest": "rejected:" + str(e)[:80]}

        def all_sessions(states, hist, reads, recs=recs):
            return [session(rec, st, hist, reads) for (rec, _), st in zip(recs, states)]

        fa = jax.jit(all_sessions)
        res_a = fa([st for _, st in recs], ja, jra)
        res_b = fa([st for st, _ in res_a], jb, jrb)
        for ci, start in enumerate(starts):
            stats["configs"] += 1
            s0 = 0 if start is None else start
            if k is not None:
                sv = saved_steps(T, k, start)
                fault("dropped_write", T - len(sv))
                stats["probe_start_gt_zero"] = stats.get("probe_start_gt_zero", 0) + int(start > 0)
            fault("second_run_overwrite")
            fault("random_order_read")
            fault("restarted_sweep")
            if spec["conv_dtype"] and spec["conv_dtype"] != spec["in_dtype"]:
                fault("dtype_conversion")
            bad_saved_cfg = False  # wrong records make the interpolation between them meaningless: reported once, as saved_step_mismatch
            pending = []
            for run, (hist, reads, kinds, res) in enumerate(((hist_a, reads_a, read_kind, res_a), (hist_b, reads_b, read_kind, res_b))):
                outs = {nm: np.asarray(v) for nm, v in res[ci][1].items()}
                stats["writes"] += T
                stats["reads"] += len(reads)
                first_value = {}
                if run == 0:
                    bad_first = set()
                for ri, t in enumerate(reads):
                    if t < s0:
                        continue
                    stats["reads_checked"] += 1
                    for nm in sorted(shapes):
                        got = outs[nm][ri]
                        if got.dtype != in_dt:
                            V("wrong_dtype", k=k, start=start, t=t, key=nm, got=str(got.dtype), run=run + 1)
                            continue
                        want, saved = model_read(wide[run][nm], T, k, start, t)
                        if saved:
                            stats["probe_saved_reads"] = stats.get("probe_saved_reads", 0) + 1
                            exact = np.array_equal(got, hist[nm][t])
                            if not exact:
                                bad_saved_cfg = True
                            if not exact and run == 0:
                                bad_first.add((nm, t))
                            if not exact and (run == 0 or (nm, t) not in bad_first):
                                err = float(np.max(np.abs(got.astype(want.dtype) - want))) / scale[nm]
                                V("saved_step_mismatch" if run == 0 else "second_run_saved_step_mismatch", k=k, start=start, t=t, key=nm, read=kinds[ri], rel_err=err, run=run + 1,
                                  stale=bool(run == 1 and np.array_equal(got, hist_a[nm][t])))
                        else:
                            nontrivial = True
                            stats["probe_interpolated_reads"] = stats.get("probe_interpolated_reads", 0) + 1
                            err = float(np.max(np.abs(got.astype(want.dtype) - want))) / scale[nm]
                            if not np.isfinite(err):
                                err = 1e300
                            pending.append(("resid", err))
                            if 32 * eps_in < err <= 32 * eps:
                                stats["probe_interpolation_beyond_input_precision"] = stats.get("probe_interpolation_beyond_input_precision", 0) + 1
                            if err > 32 * eps and run == 0:
                                bad_first.add((nm, t))
                            if err > 32 * eps and (run == 0 or (nm, t) not in bad_first):
                                sv = saved_steps(T, k, start)
                                base_mon = "interpolated_value_not_finite" if err >= 1e300 else "interpolation_mismatch"
                                pending.append((base_mon if run == 0 else "second_run_" + base_mon, dict(k=k, start=start, t=t, key=nm, read=kinds[ri], rel_err=err, tolerance=32 * eps, run=run + 1,
                                                                                                        enclosing=[max(x for x in sv if x < t), min(x for x in sv if x > t)])))
                        # the same t read twice (different read orders) must give the same value
                        kk = (nm, t)
                        if kk in first_value:
                            if not np.array_equal(first_value[kk], got, equal_nan=True):
                                V("read_order_dependent", k=k, start=start, t=t, key=nm, read=kinds[ri], run=run + 1)
                        else:
                            first_value[kk] = got
                for nm in sorted(outs):
                    digest.update(np.ascontiguousarray(outs[nm]).tobytes())
            if bad_saved_cfg:
                stats["interpolation_not_judged_bad_records"] = stats.get("interpolation_not_judged_bad_records", 0) + sum(1 for m, _ in pending if m != "resid")
            else:
                for m, kw in pending:
                    if m == "resid":
                        resid["interpolation"] = max(resid.get("interpolation", 0.0), kw)
                    else:
                        V(m, **kw)
    if np.issubdtype(in_dt, np.complexfloating):
        stats["probe_complex"] = 1
    stats["probe_pipeline_" + ("_".join(spec["pipeline"]) or "empty")] = 1
    sig = specgen.signature("C30", spec["pipeline"], spec["in_dtype"], spec["conv_dtype"], T)
    dg = digest.hexdigest()[:16] + ":" + ",".join(f"{k}={v:.3g}" for k, v in sorted(resid.items())) + f":v{sum(per_monitor.values())}"
    return {"violations": viol, "stats": stats, "residuals": resid, "nontrivial": nontrivial, "signature": sig, "digest": dg}
