"""C36 — dispersive cells follow their recurrence; accepted passive media stay bounded.

(a) per-step invariant on the driver-owned clock: the stored polarisation after every real step equals
    c1*P^n + c2*P^(n-1) + c3*E^n (NumPy, coefficient arrays read from the placed scene), and a
    counterfactual fork - the same step taken by the non-dispersive variant of the scene - gives the
    same E on every cell whose coefficients and polarisation are zero;
(b) bounded liveness: closed (periodic, even cell count => the Nyquist mode exists) domains with passive
    Lorentz / Drude media that placement accepts silently, 10^4 steps through the real loop with a
    reduced energy detector; max field energy <= 10 x initial.
"""
from __future__ import annotations

import numpy as np

from fdsim import specgen

PROPERTY = "C36"
LEVEL = "exploration"
RUNS = {"quick": 20, "thorough": 400}
RUN_TIMEOUT_S = 900
RULE = (
    "even run indices: recurrence scenes (all boundary kinds, uniform/non-uniform grid, 1-3 dispersive boxes with 1-2 Lorentz/Drude poles "
    "each over a non-dispersive or dispersive background, optional conductivity, random initial fields + dipole, T 6-12, crash/restore). odd "
    "indices: boundedness scenes (periodic 4^3/6^3, homogeneous or boxed single-pole passive medium, w0*dt in 0.05-1.8, wp*dt 0.05-1.2, "
    "gamma*dt 0-0.5, strength 0.2-8, eps_inf 1-6, Courant factor 0.5-0.99), only scenes accepted without exception/warning are run. "
    "non-trivial = non-zero polarisation observed / initial energy > 0; distinct = mode x scene class x pole kinds x stability-margin bin"
)
REAL = ["place_objects (dispersive coefficient arrays)", "forward (ADE branch of update_E)", "custom_fdtd_forward (real loop, 10^4 steps)", "EnergyDetector"]
STUB = ["durable storage = host numpy copy"]
ASSUMPTIONS = [
    "float64; recurrence 1e-12 relative; zero-coefficient cells compared to 1e-13",
    "the analytic Nyquist-mode criterion (w0 dt)^2 (1 + d_eps/eps_inf - S^2) <= 4 (1 - S^2) (Drude: (wp dt)^2/eps_inf <= 4(1-S^2)) is used only to *classify* an observed growth as the known finding, never to excuse one",
]
TECHNIQUE = "deterministic simulation: per-step recurrence invariant + counterfactual fork on the driver-owned clock; bounded-liveness run of the real loop"
LEVEL_TEXT = "Seeded exploration; (a) every step of every run checked, (b) 10^4-step boundedness for accepted passive media."
LEVEL_NOTE = "float64 CPU; (b) uses the smallest domains that contain the grid Nyquist mode; single-pole media in (b)"


def _axes(v):
    return [float(x) for x in v] if isinstance(v, (list, tuple)) else [float(v)] * 3


def _stability_lhs_rhs(pole, eps_inf, S):
    """Worst axis of the Nyquist-mode criterion (per-axis poles: each field component has its own pole parameters)."""
    rhs = 4.0 * (1.0 - S * S)
    if pole["kind"] == "drude":
        return max(w * w / eps_inf for w in _axes(pole["wp_dt"])), rhs
    return max(w * w * (1.0 + d / eps_inf - S * S) for w, d in zip(_axes(pole["w0_dt"]), _axes(pole["deps"]))), rhs


def _predicted_unstable(spec, violation):
    if spec.get("mode") != "bounded" or violation.get("monitor") != "passive_medium_grows":
        return False
    # the library itself refuses w0*dt >= 2 at placement: a medium of that kind that *runs* was accepted by something new
    if spec["pole"]["kind"] == "lorentz" and max(_axes(spec["pole"]["w0_dt"])) >= 2.0:
        return False
    lhs, rhs = _stability_lhs_rhs(spec["pole"], spec["eps_inf"], spec["courant"])
    return lhs > 0.8 * rhs


KNOWN_PREDICATES = {"beyond_coupled_stability_limit": _predicted_unstable}


def generate(rng, tier, index):
    if index % 10 in (7, 9):
        # nested passive media, each stable on its own: a weakly dispersive low-index inclusion inside a strongly dispersive
        # high-index host (a box placed later, or a sphere = multi-material object).  Every cell must carry the coefficients of
        # the medium that covers it - the host's strong pole on the inclusion's low eps_inf would be unstable.
        S = 0.5
        dt = S / np.sqrt(3) * specgen.SPACING / 299792458.0
        n = int(rng.integers(8, 11))
        host = {"permittivity": float(rng.uniform(9.0, 12.0)), "dispersion": {"poles": [
            {"kind": "lorentz", "w0": float(rng.uniform(0.15, 0.3) / dt), "gamma": float(rng.uniform(0.0, 0.05) / dt), "deps": float(rng.uniform(0.5, 1.5))},
            {"kind": "lorentz", "w0": float(rng.uniform(0.7, 1.0) / dt), "gamma": float(rng.uniform(0.0, 0.05) / dt), "deps": float(rng.uniform(4.0, 8.0))}]}}
        incl = {"permittivity": 1.0, "dispersion": {"poles": [{"kind": "lorentz", "w0": float(rng.uniform(0.1, 0.2) / dt), "gamma": float(rng.uniform(0.0, 0.05) / dt), "deps": float(rng.uniform(0.1, 0.3))}]}}
        lo = [int(rng.integers(1, n - 5)) for _ in range(3)]
        size = [int(rng.integers(3, 5)) for _ in range(3)]
        return {"mode": "nested", "n": n, "courant": S, "host": host, "inclusion": incl, "shape_kind": "box" if index % 10 == 7 else "sphere", "box": [[a, a + s_] for a, s_ in zip(lo, size)],
                "steps": 1500, "init_seed": int(rng.integers(0, 2**31))}
    if index % 2 == 1:
        S = float(specgen.choice(rng, [0.5, 0.7, 0.9, 0.99]))
        eps_inf = float(rng.uniform(1.0, 6.0))
        if rng.uniform() < 0.5:
            pole = {"kind": "drude", "wp_dt": float(10 ** rng.uniform(np.log10(0.05), np.log10(1.2))), "gamma_dt": float(specgen.choice(rng, [0.0, rng.uniform(0, 0.5)]))}
        else:
            pole = {"kind": "lorentz", "w0_dt": float(10 ** rng.uniform(np.log10(0.05), np.log10(1.8))), "gamma_dt": float(specgen.choice(rng, [0.0, rng.uniform(0, 0.5)])), "deps": float(rng.uniform(0.2, 8.0))}
        # bias half of the runs into the predicted-stable region so the clean part of the property is exercised
        if rng.uniform() < 0.5:
            for _ in range(50):
                lhs, rhs = _stability_lhs_rhs(pole, eps_inf, S)
                if lhs < 0.5 * rhs:
                    break
                k = "wp_dt" if pole["kind"] == "drude" else "w0_dt"
                pole[k] *= 0.8
        if rng.uniform() < 0.3:  # diagonally anisotropic pole: per-axis parameters around the drawn ones
            for k in [k for k in ("wp_dt", "w0_dt", "gamma_dt", "deps") if k in pole]:
                pole[k] = [float(pole[k] * f) for f in rng.uniform(0.6, 1.0, size=3)]
            if pole["kind"] == "lorentz" and rng.uniform() < 0.35:
                # one axis beyond the documented acceptance bound w0*dt < 2: placement must refuse the medium
                pole["w0_dt"][int(rng.integers(0, 3))] = float(rng.uniform(2.02, 2.6))
        n = int(specgen.choice(rng, [4, 6]))
        return {"mode": "bounded", "n": n, "courant": S, "eps_inf": eps_inf, "pole": pole, "boxed": bool(rng.uniform() < 0.3), "steps": 10000 if tier == "thorough" or True else 3000, "init_seed": int(rng.integers(0, 2**31))}
    spec = specgen.rand_scene(rng, T=(6, 12), shape=(4, 8), pml=(2, 3), p_nonuniform=0.3, tiers=("iso", "diag"), sigma_e=True, mu=False, dispersive=True, n_sources=(0, 1), source_kinds=("dipole",), n_detectors=(0, 0))
    m = spec["materials"]
    if m["mode"] != "objects" or not any("dispersion" in o["material"] for o in m.get("objects", [])):
        objs = []
        for i in range(int(rng.integers(1, 4))):
            mat = {"permittivity": float(rng.uniform(1.5, 5.0)), "dispersion": specgen.rand_dispersion(rng)}
            if rng.uniform() < 0.3:
                mat["electric_conductivity"] = float(rng.uniform(0.01, 0.2))
            objs.append({"kind": "box", "name": f"m{i}", "box": specgen.rand_box(rng, spec["shape"], min_size=1), "material": mat, "order": i})
        bg = {"permittivity": float(rng.uniform(1.0, 3.0))}
        if rng.uniform() < 0.3:
            bg["dispersion"] = specgen.rand_dispersion(rng, n_poles=1)
        elif rng.uniform() < 0.6:
            bg["electric_conductivity"] = float(rng.uniform(0.01, 0.2))  # conductive cells with all-zero pole coefficients
        spec["materials"] = {"mode": "objects", "objects": objs, "background": bg}
    spec["mode"] = "recurrence"
    spec["init_seed"] = int(rng.integers(0, 2**31))
    T = spec["steps"]
    spec["ops"] = [{"op": "crash_restore", "at": int(t)} for t in sorted(set(int(x) for x in rng.integers(1, T, size=int(rng.integers(0, 3)))))]
    return spec


def shrink(spec):
    if spec.get("mode") != "recurrence":
        return []
    out = []
    for s in specgen.generic_shrinks(spec):
        s["mode"] = "recurrence"
        if any("dispersion" in o["material"] for o in s["materials"].get("objects", [])) or s["materials"].get("background", {}).get("dispersion"):
            out.append(s)
    return out


def _strip_dispersion(spec):
    import copy

    s = copy.deepcopy(spec)
    for o in s["materials"].get("objects", []):
        o["material"].pop("dispersion", None)
    if s["materials"].get("background"):
        s["materials"]["background"].pop("dispersion", None)
    return s


def _recurrence(spec):
    from fdsim import scene as sc, driver as dr

    scn = sc.build_scene(spec)
    plain = sc.build_scene(_strip_dispersion(spec))
    if scn.arrays.dispersive_c1 is None:
        return {"rejected": True, "nontrivial": False, "stats": {"rejected": 1}, "digest": "nodisp"}
    T = scn.T
    E0, H0 = sc.random_fields(scn, spec["init_seed"], scale=1.0)
    st = dr.Stepper(scn, record_detectors=False)
    stp = dr.Stepper(plain, record_detectors=False)
    state = st.state0(scn.arrays.aset("fields->E", E0).aset("fields->H", H0))
    c1, c2, c3 = (np.array(getattr(scn.arrays, f"dispersive_c{i}")) for i in (1, 2, 3))
    zero_cells = np.all(c1 == 0, axis=(0, 1)) & np.all(c2 == 0, axis=(0, 1)) & np.all(c3 == 0, axis=(0, 1))
    crash = {o["at"] for o in spec.get("ops", [])}
    viol, stats, resid = [], {"sim_steps": 2 * T, "sim_time_fs": 2 * T * scn.dt * 1e15}, {"recurrence": 0.0, "zero_cell_fork": 0.0}
    nontrivial = False
    for t in range(T):
        f0 = dr.fields_np(state)
        fl = state[1].fields  # same E, H and PML auxiliaries; only the polarisation state is dropped
        garr = plain.arrays.aset("fields->E", fl.E).aset("fields->H", fl.H).aset("fields->psi_E", fl.psi_E).aset("fields->psi_H", fl.psi_H)
        ghost = stp.fwd((state[0], garr), 1)
        state = st.fwd(state, 1)
        f1 = dr.fields_np(state)
        want = c1 * f0["P_curr"] + c2 * f0["P_prev"] + c3 * f0["E"][None]
        scale = max(float(np.max(np.abs(want))), float(np.max(np.abs(f1["P_curr"]))))
        d = dr.rel_diff(want, f1["P_curr"], scale if scale > 0 else None)
        d = max(d, dr.rel_diff(f0["P_curr"], f1["P_prev"]))
        resid["recurrence"] = max(resid["recurrence"], d if np.isfinite(d) else 1e300)
        nontrivial |= bool(scale > 0)
        if not (d <= 1e-12):
            viol.append({"monitor": "polarisation_recurrence", "step": t, "metric": "rel_diff", "value": d, "tolerance": 1e-12})
            break
        pz = zero_cells & np.all(f0["P_curr"] == 0, axis=(0, 1)) & np.all(f0["P_prev"] == 0, axis=(0, 1))
        g = dr.fields_np(ghost)
        sE = float(np.max(np.abs(f1["E"])))
        dz = float(np.max(np.abs((f1["E"] - g["E"]) * pz[None]))) / sE if sE > 0 else 0.0
        resid["zero_cell_fork"] = max(resid["zero_cell_fork"], dz)
        stats["zero_cells_checked"] = stats.get("zero_cells_checked", 0) + int(pz.sum())
        if not (dz <= 1e-13):
            viol.append({"monitor": "zero_coefficient_cell_differs_from_nondispersive", "step": t, "metric": "rel_diff", "value": dz, "tolerance": 1e-13})
            break
        if (t + 1) in crash:
            state = dr.roundtrip(state)
            stats["fault_crash_restore"] = stats.get("fault_crash_restore", 0) + 1
    stats["fault_counterfactual_fork"] = T
    stats["probe_poles"] = int(c1.shape[0])
    stats["probe_per_axis_coeffs"] = int(c1.shape[1] == 3)
    sig = specgen.scene_signature(spec, "recurrence", int(c1.shape[0]), int(c1.shape[1]))
    digest = dr.digest_arrays(dr.fields_np(state)) + ":" + ",".join(f"{k}={dr.sig3(v)}" for k, v in sorted(resid.items())) + f":v{len(viol)}"
    return {"violations": viol, "stats": stats, "residuals": resid, "nontrivial": nontrivial, "signature": sig, "digest": digest}


def _bounded(spec):
    import warnings

    from fdtdx.fdtd.fdtd import custom_fdtd_forward
    from loguru import logger
    from fdsim import scene as sc, driver as dr

    S, n, T = spec["courant"], spec["n"], spec["steps"]
    dt = S / np.sqrt(3) * specgen.SPACING / 299792458.0
    p = spec["pole"]
    def per_dt(v):
        return [x / dt for x in v] if isinstance(v, list) else v / dt

    pole = {"kind": p["kind"], "gamma": per_dt(p["gamma_dt"])}
    if p["kind"] == "drude":
        pole["wp"] = per_dt(p["wp_dt"])
    else:
        pole["w0"], pole["deps"] = per_dt(p["w0_dt"]), p["deps"]
    med = {"permittivity": spec["eps_inf"], "dispersion": {"poles": [pole]}}
    mats = {"mode": "objects", "objects": [], "background": med}
    if spec["boxed"]:
        mats = {"mode": "objects", "objects": [{"kind": "box", "name": "slab", "box": [[0, n], [0, n], [1, n - 1]], "material": med, "order": 1}], "background": {"permittivity": 1.0}}
    sspec = {
        "shape": [n, n, n], "grid": {"kind": "uniform", "spacing": specgen.SPACING}, "steps": T, "courant": S, "key": 0,
        "faces": {f: {"kind": "periodic"} for f in specgen.FACES}, "materials": mats, "sources": [],
        "detectors": [{"kind": "energy", "name": "u", "box": [[0, n]] * 3, "reduce": True, "exact": False}],
    }
    msgs = []
    hid = logger.add(lambda m: msgs.append(str(m)), level="WARNING")
    try:
        with warnings.catch_warnings(record=True) as wlist:
            warnings.simplefilter("always")
            try:
                scn = sc.build_scene(sspec)
            except (ValueError, NotImplementedError) as e:
                beyond = p["kind"] == "lorentz" and max(_axes(p["w0_dt"])) >= 2.0
                return {"rejected": True, "nontrivial": False, "stats": {"rejected_by_exception": 1, "probe_refused_w0dt_ge_2": int(beyond)}, "digest": "rejected:" + type(e).__name__}
    finally:
        logger.remove(hid)
    own = [w for w in wlist if "fdtdx" in str(getattr(w, "filename", ""))]
    if own or msgs:
        return {"rejected": True, "nontrivial": False, "stats": {"rejected_by_warning": 1}, "digest": "rejected:warning"}
    E0, H0 = sc.random_fields(scn, spec["init_seed"], scale=1.0)
    arr = scn.arrays.aset("fields->E", E0).aset("fields->H", H0)
    t, out = custom_fdtd_forward(arr, scn.objects, scn.config, scn.key, reset_container=False, record_detectors=True, start_time=0, end_time=T, show_progress=False)
    u = np.array(out.detector_states["u"]["energy"])[:, 0]
    import fdtdx
    import jax.numpy as jnp

    u0 = float(jnp.sum(fdtdx.compute_energy(E0, H0, arr.inv_permittivities, arr.inv_permeabilities))) * specgen.SPACING**3
    viol, stats, resid = [], {"sim_steps": T, "sim_time_fs": T * scn.dt * 1e15}, {}
    finite = np.all(np.isfinite(u))
    growth = float(np.max(u) / u0) if finite and u0 > 0 else float("inf")
    lhs, rhs = _stability_lhs_rhs(p, spec["eps_inf"], S)
    resid["max_energy_over_initial" + ("_predicted_stable" if lhs <= 0.8 * rhs else "_beyond_limit")] = min(growth, 1e300)
    if not (growth <= 10.0):
        first = int(np.argmax(~np.isfinite(u) | (u > 10 * u0)))
        viol.append({"monitor": "passive_medium_grows", "metric": "max U / U0", "value": min(growth, 1e300), "tolerance": 10.0, "first_step_above": first, "pole": p, "eps_inf": spec["eps_inf"], "courant": S, "criterion_lhs_over_rhs": lhs / rhs})
    stats["probe_" + p["kind"]] = 1
    stats["probe_predicted_stable"] = int(lhs <= 0.8 * rhs)
    stats["probe_lossless"] = int(max(_axes(p["gamma_dt"])) == 0.0)
    stats["probe_per_axis_pole_bounded"] = int(isinstance(p["gamma_dt"], list))
    sig = specgen.signature("bounded", p["kind"], S, n, spec["boxed"], int(np.clip(np.log2(max(lhs / rhs, 1e-6)), -6, 6)), max(_axes(p["gamma_dt"])) == 0.0, isinstance(p["gamma_dt"], list))
    digest = f"{dr.sig3(u0)}:{dr.sig3(min(growth, 1e300))}:v{len(viol)}"
    return {"violations": viol, "stats": stats, "residuals": resid, "nontrivial": bool(u0 > 0), "signature": sig, "digest": digest}


def _nested(spec):
    from fdtdx.fdtd.fdtd import custom_fdtd_forward
    from fdsim import scene as sc, driver as dr
    import fdtdx
    import jax.numpy as jnp

    n, T = spec["n"], spec["steps"]
    obj = {"kind": "box", "name": "incl", "box": spec["box"], "material": spec["inclusion"], "order": 1}
    if spec["shape_kind"] == "sphere":
        radii = [0.49 * (b[1] - b[0]) * specgen.SPACING for b in spec["box"]]
        obj.update({"kind": "sphere", "radius": radii[0], "radii": radii})
    sspec = {"shape": [n, n, n], "grid": {"kind": "uniform", "spacing": specgen.SPACING}, "steps": T, "courant": spec["courant"], "key": 0,
             "faces": {f: {"kind": "periodic"} for f in specgen.FACES}, "materials": {"mode": "objects", "objects": [obj], "background": spec["host"]}, "sources": [],
             "detectors": [{"kind": "energy", "name": "u", "box": [[0, n]] * 3, "reduce": True, "exact": False}]}
    scn = sc.build_scene(sspec)
    E0, H0 = sc.random_fields(scn, spec["init_seed"], scale=1.0)
    arr = scn.arrays.aset("fields->E", E0).aset("fields->H", H0)
    t, out = custom_fdtd_forward(arr, scn.objects, scn.config, scn.key, reset_container=False, record_detectors=True, start_time=0, end_time=T, show_progress=False)
    u = np.array(out.detector_states["u"]["energy"])[:, 0]
    u0 = float(jnp.sum(fdtdx.compute_energy(E0, H0, arr.inv_permittivities, arr.inv_permeabilities))) * specgen.SPACING**3
    growth = float(np.max(u) / u0) if np.all(np.isfinite(u)) and u0 > 0 else float("inf")
    viol = []
    if not (growth <= 10.0):
        first = int(np.argmax(~np.isfinite(u) | (u > 10 * u0)))
        viol.append({"monitor": "nested_passive_media_grow", "metric": "max U / U0", "value": min(growth, 1e300), "tolerance": 10.0, "first_step_above": first, "inclusion": spec["shape_kind"]})
    stats = {"sim_steps": T, "sim_time_fs": T * scn.dt * 1e15, "probe_nested_" + spec["shape_kind"]: 1}
    return {"violations": viol, "stats": stats, "residuals": {"nested_max_energy_over_initial": min(growth, 1e300)}, "nontrivial": bool(u0 > 0),
            "signature": specgen.signature("nested", spec["shape_kind"], n), "digest": f"nested:{dr.sig3(u0)}:{dr.sig3(min(growth, 1e300))}:v{len(viol)}"}


def execute(spec):
    from fdsim import env

    env.bootstrap()
    if spec.get("mode") == "nested":
        return _nested(spec)
    return _bounded(spec) if spec.get("mode") == "bounded" else _recurrence(spec)
