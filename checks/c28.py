"""C28 — static materials are painted by placement order (last writer wins).

Objects are writers, `placement_order` is the timestamp, the position in the user's object list breaks
ties (later wins), the volume is the lowest writer.  Workload: random overlapping boxes, spheres /
ellipsoids and cylinders (each shape's own voxel mask is taken as given) with random orders including
ties and materials of every tier.  Schedule: the same scene is placed under several permutations of the
object list handed to `place_objects`: permutations that keep tied objects in their relative order must
not change any array; permutations that swap tied objects must change the arrays exactly as the
tie-break says.  Oracle: a per-cell arg-max over (placement_order, list position) selects the expected
inverse permittivity / inverse permeability / spacing-scaled conductivities; component count per array
= widest tier any material needs; non-magnetic scenes store the scalar 1.0.
"""
from __future__ import annotations

import copy
import math

import numpy as np

from fdsim import specgen

PROPERTY = "C28"
LEVEL = "exploration"
RUNS = {"quick": 48, "thorough": 600}
RUN_TIMEOUT_S = 600
RULE = (
    "seeded scenes 5-10 cells per axis, uniform (70%) or explicit non-uniform grid, 2-6 static objects drawn from box / sphere-ellipsoid / cylinder with "
    "overlap-biased regions, placement_order in a 3-value range (ties frequent), per-scene tier caps for permittivity (iso/diag/full SPD), permeability "
    "(none/iso/diag/full), electric and magnetic conductivity (none/iso/diag/full), optional non-default volume material; each scene is placed under 3 "
    "list permutations (base, tie-preserving shuffle, tie swap). non-trivial = at least two objects overlap in some cell; "
    "distinct = grid kind x realised tiers x object kinds x whether a tie overlaps"
)
REAL = ["place_objects", "_init_arrays (sorted_obj loop, tier selection)", "ObjectContainer.all_objects_* properties", "UniformMaterialObject", "Sphere", "Cylinder",
        "Sphere/Cylinder.get_voxel_mask_for_shape (taken as given)", "Material normalisation", "apply_params (no devices)"]
STUB = ["no field stepping; no sources / detectors / boundaries"]
ASSUMPTIONS = [
    "float64; arrays compared with 1e-10 relative to the array max (the multi-material path inverts twice, so bitwise equality is not required)",
    "conductivity scaling mirrors the documented formula: grid spacing on uniform grids, c0*dt/courant_number = sqrt(3)/sqrt(sum 1/d_min^2) on non-uniform grids",
    "sphere / cylinder masks are read from the placed object (rasterisation is a different property)",
    "a scene without conductive material may store the conductivity as None or as zeros",
]
TECHNIQUE = "deterministic simulation of the setup phase: last-writer-wins reference map vs the placed arrays, under seeded permutations of the object list (tie-preserving and tie-swapping)"
LEVEL_TEXT = "Seeded search over overlapping static objects x material tiers x list permutations against a per-cell arg-max reference. Evidence, not a proof."
LEVEL_NOTE = "single actor; schedule dimension = list order only; geometry masks trusted; ~2 s per placement limits the quick tier to 48 scenes x 3 permutations"
TOL = 1e-10
SP = specgen.SPACING
C0 = 299792458.0


# ------------------------------------------------------------------ generator


def _spd(r, lo, hi):
    A = r.normal(size=(3, 3))
    Q, _ = np.linalg.qr(A)
    lam = r.uniform(lo, hi, size=3)
    M = (Q * lam) @ Q.T
    M = 0.5 * (M + M.T)
    return [[float(x) for x in row] for row in M]


def _psd(r, hi):
    """Symmetric positive semi-definite conductivity tensor."""
    A = r.normal(size=(3, 3))
    Q, _ = np.linalg.qr(A)
    lam = r.uniform(0.0, hi, size=3)
    M = (Q * lam) @ Q.T
    M = 0.5 * (M + M.T)
    return [[float(x) for x in row] for row in M]


TIERS = ["none", "iso", "diag", "full"]


def _draw_tier(r, cap, allow_none):
    i = TIERS.index(cap)
    opts = TIERS[(0 if allow_none else 1): i + 1]
    return specgen.choice(r, opts)


def _rand_material(r, caps):
    m = {}
    t = _draw_tier(r, caps["eps"], False)
    if t == "iso":
        m["permittivity"] = float(r.uniform(1.2, 8.0))
    elif t == "diag":
        m["permittivity"] = [float(x) for x in r.uniform(1.2, 8.0, size=3)]
    else:
        m["permittivity"] = _spd(r, 1.2, 8.0)
    if caps["mu"] != "none":
        t = _draw_tier(r, caps["mu"], True)
        if t == "iso":
            m["permeability"] = float(r.uniform(1.3, 4.0))
        elif t == "diag":
            m["permeability"] = [float(x) for x in r.uniform(1.3, 4.0, size=3)]
        elif t == "full":
            m["permeability"] = _spd(r, 1.3, 4.0)
    for key, cap in (("electric_conductivity", caps["se"]), ("magnetic_conductivity", caps["sh"])):
        if cap == "none":
            continue
        t = _draw_tier(r, cap, True)
        if t == "iso":
            m[key] = float(r.uniform(0.05, 2.0) * 1e4)
        elif t == "diag":
            m[key] = [float(x) for x in r.uniform(0.05, 2.0, size=3) * 1e4]
        elif t == "full":
            m[key] = [[x * 1e4 for x in row] for row in _psd(r, 2.0)]
    return m


def _edges(spec):
    g = spec["grid"]
    if g["kind"] == "rect":
        return [np.asarray(e, dtype=np.float64) for e in g["edges"]]
    return [-(n * g["spacing"]) / 2.0 + g["spacing"] * np.arange(n + 1, dtype=np.float64) for n in spec["shape"]]


def _diameter_for_cells(r, E, s, uniform):
    """A diameter the documented length->cells rule maps to exactly `s` cells (away from knife edges)."""
    if uniform:
        h = E[1] - E[0]
        return float(s * h + r.uniform(-0.2, 0.2) * h)
    return float(0.5 * (E[s - 1] + E[s]) - E[0] + r.uniform(-0.2, 0.2) * (E[s] - E[s - 1]))


def _cells_for_length(E, L, uniform):
    """Documented rule (nearest on uniform grids; covering count from the lower domain edge otherwise).
    Returns (cells, distance to the nearest knife edge in units of the local cell)."""
    d = E - E[0]
    if uniform:
        h = E[1] - E[0]
        s = int(np.round(L / h))
        return s, abs(abs(L / h - s) - 0.5)
    j = int(np.searchsorted(d, L, side="left"))
    j = min(j, len(E) - 1)
    w = d[j] - d[j - 1] if j > 0 else d[1]
    return j, min(abs(d[j] - L), abs(L - d[j - 1]) if j > 0 else 1.0) / w


def _place(r, n, s):
    s = min(s, n)
    u = r.uniform()
    if u < 0.15:
        lo = 0
    elif u < 0.3:
        lo = n - s
    else:
        lo = int(r.integers(0, n - s + 1))
    return [lo, lo + s]


def generate(rng, tier, index):
    r = rng
    shape = [int(r.integers(5, 11)) for _ in range(3)]
    grid = specgen.rand_grid(r, shape, p_nonuniform=0.3)
    uniform = grid["kind"] == "uniform"
    spec = {"shape": shape, "grid": grid, "steps": 2, "faces": {}, "key": int(r.integers(0, 2**31)), "sources": [], "detectors": []}
    E = _edges(spec)
    caps = {
        "eps": specgen.choice(r, ["iso", "diag", "full"], p=[0.35, 0.35, 0.3]),
        "mu": specgen.choice(r, TIERS, p=[0.4, 0.25, 0.2, 0.15]),
        "se": specgen.choice(r, TIERS, p=[0.4, 0.3, 0.2, 0.1]),
        "sh": specgen.choice(r, TIERS, p=[0.55, 0.25, 0.15, 0.05]),
    }
    objs = []
    n = int(r.integers(2, 7))
    order_base = int(r.integers(-2, 3))
    for i in range(n):
        kind = specgen.choice(r, ["box", "sphere", "cylinder"], p=[0.55, 0.25, 0.2])
        o = {"kind": kind, "name": f"m{i}", "material": _rand_material(r, caps), "order": order_base + int(r.integers(0, 3))}
        if kind == "box":
            o["box"] = [_place(r, shape[a], int(r.integers(2, shape[a] + 1))) for a in range(3)]
        elif kind == "sphere":
            sizes = [int(r.integers(2, min(shape[a], 7) + 1)) for a in range(3)]
            if r.uniform() < 0.5 and uniform:
                sizes = [min(sizes)] * 3
            dia = [_diameter_for_cells(r, E[a], sizes[a], uniform) for a in range(3)]
            o["radius"] = dia[0] / 2.0
            o["radii"] = [d / 2.0 for d in dia]
            o["box"] = [_place(r, shape[a], sizes[a]) for a in range(3)]
        else:
            ax = int(r.integers(0, 3))
            t1, t2 = [a for a in range(3) if a != ax]
            ok = False
            for _ in range(30):
                s1 = int(r.integers(2, min(shape[t1], 7) + 1))
                dia = _diameter_for_cells(r, E[t1], s1, uniform)
                s2, margin = _cells_for_length(E[t2], dia, uniform)
                if 1 <= s2 <= shape[t2] and margin > 0.1:
                    ok = True
                    break
            if not ok:
                o["kind"] = "box"
                o["box"] = [_place(r, shape[a], int(r.integers(2, shape[a] + 1))) for a in range(3)]
            else:
                sizes = [0, 0, 0]
                sizes[t1], sizes[t2] = s1, s2
                sizes[ax] = int(r.integers(1, shape[ax] + 1))
                o["radius"] = dia / 2.0
                o["axis"] = ax
                o["box"] = [_place(r, shape[a], sizes[a]) for a in range(3)]
        objs.append(o)
    mats = {"mode": "objects", "objects": objs}
    if r.uniform() < 0.5:
        mats["background"] = _rand_material(r, caps)
    spec["materials"] = mats

    names = ["volume"] + [o["name"] for o in objs]
    base = [names[i] for i in r.permutation(len(names))]
    spec["perms"] = [{"kind": "base", "list": base}] + _make_perms(r, base, {o["name"]: o["order"] for o in objs})
    return spec


def _make_perms(r, base, orders):
    out = []
    # tie-preserving shuffle: random permutation, then tied objects are put back in their base relative order
    p = [base[i] for i in r.permutation(len(base))]
    groups = {}
    for nm in base:
        groups.setdefault(orders.get(nm, "vol"), []).append(nm)
    slots = {}
    for pos, nm in enumerate(p):
        slots.setdefault(orders.get(nm, "vol"), []).append(pos)
    q = list(p)
    for k, members in groups.items():
        for pos, nm in zip(slots[k], members):
            q[pos] = nm
    out.append({"kind": "tie_preserving", "list": q})
    ties = [m for k, m in groups.items() if k != "vol" and len(m) >= 2]
    if ties:
        g = ties[int(r.integers(0, len(ties)))]
        i, j = sorted(int(x) for x in r.choice(len(g), size=2, replace=False))
        s = list(base)
        a, b = s.index(g[i]), s.index(g[j])
        s[a], s[b] = s[b], s[a]
        out.append({"kind": "tie_swap", "list": s, "swapped": [g[i], g[j]]})
    else:
        out.append({"kind": "random", "list": [base[i] for i in r.permutation(len(base))]})
    return out


def shrink(spec):
    out = []
    objs = spec["materials"]["objects"]
    for i in range(len(objs)):
        s = copy.deepcopy(spec)
        nm = s["materials"]["objects"].pop(i)["name"]
        for p in s["perms"]:
            p["list"] = [x for x in p["list"] if x != nm]
            if nm in p.get("swapped", []):
                p["kind"] = "random"
                p.pop("swapped", None)
        out.append(s)
    for i in range(1, len(spec["perms"])):
        s = copy.deepcopy(spec)
        s["perms"].pop(i)
        out.append(s)
    if spec["materials"].get("background"):
        s = copy.deepcopy(spec)
        s["materials"].pop("background")
        out.append(s)
    for i, o in enumerate(objs):
        for key in ("magnetic_conductivity", "electric_conductivity", "permeability"):
            if key in o["material"]:
                s = copy.deepcopy(spec)
                s["materials"]["objects"][i]["material"].pop(key)
                out.append(s)
        if not isinstance(o["material"].get("permittivity"), float):
            s = copy.deepcopy(spec)
            p = o["material"]["permittivity"]
            s["materials"]["objects"][i]["material"]["permittivity"] = float(p[0][0] if isinstance(p[0], list) else p[0])
            out.append(s)
        if o["kind"] == "box":
            for a in range(3):
                lo, hi = o["box"][a]
                if hi - lo > 1:
                    s = copy.deepcopy(spec)
                    s["materials"]["objects"][i]["box"][a] = [lo, hi - 1]
                    out.append(s)
    return out


# ------------------------------------------------------------------ reference model


def _nine(v):
    """Documented input forms -> row-major 3x3 (scalar / 3 diagonal entries / nested 3x3)."""
    if isinstance(v, (int, float)):
        return np.diag([float(v)] * 3)
    v = list(v)
    if len(v) == 3 and not isinstance(v[0], (list, tuple)):
        return np.diag([float(x) for x in v])
    return np.asarray(v, dtype=np.float64).reshape(3, 3)


def _tier_of(mats):
    iso = all(np.allclose(M, np.eye(3) * M[0, 0], rtol=1e-9, atol=0.0) if M[0, 0] != 0 else not M.any() for M in mats)
    if iso:
        return 1
    diag = all(not (M - np.diag(np.diag(M))).any() for M in mats)
    return 3 if diag else 9


def _components(M, c, invert):
    if c == 1:
        v = np.array([M[0, 0]])
        return 1.0 / v if invert else v
    if c == 3:
        v = np.diag(M).copy()
        return 1.0 / v if invert else v
    return (np.linalg.inv(M) if invert else M).reshape(9)


def execute(spec):
    from fdsim import driver as dr
    from fdsim import env
    from fdsim import scene as sc

    objs = spec["materials"]["objects"]
    shape = tuple(spec["shape"])
    uniform = spec["grid"]["kind"] == "uniform"
    E = _edges(spec)
    viol, stats, resid = [], {"scenes": 1, "placements": 0, "objects": len(objs)}, {}

    def V(monitor, **kw):
        viol.append({"monitor": monitor, **kw})

    # ---- materials table (index 0 = volume)
    bg = spec["materials"].get("background") or {}
    table = [bg] + [o["material"] for o in objs]
    P = {}
    for key, default in (("permittivity", 1.0), ("permeability", 1.0), ("electric_conductivity", 0.0), ("magnetic_conductivity", 0.0)):
        P[key] = [_nine(m.get(key, default)) for m in table]
    tiers = {k: _tier_of(v) for k, v in P.items()}
    magnetic = any(not np.array_equal(M, np.eye(3)) for M in P["permeability"])
    cond_e = any(M.any() for M in P["electric_conductivity"])
    cond_h = any(M.any() for M in P["magnetic_conductivity"])
    if uniform:
        cspacing = spec["grid"]["spacing"]
    else:
        cspacing = math.sqrt(3.0) / math.sqrt(sum(1.0 / float(np.min(np.diff(e))) ** 2 for e in E))

    built = []
    masks = None
    for pi, perm in enumerate(spec["perms"]):
        s = {k: v for k, v in spec.items() if k != "perms"}
        s["object_order"] = perm["list"]
        try:
            scn = sc.build_scene(s, apply=True)
        except (ValueError, NotImplementedError) as e:
            return {"rejected": True, "nontrivial": False, "stats": {"rejected": 1}, "digest": "rejected:" + type(e).__name__ + ":" + str(e)[:80]}
        stats["placements"] += 1
        if pi > 0:
            stats["fault_permutation"] = stats.get("fault_permutation", 0) + 1
            stats["fault_" + perm["kind"]] = stats.get("fault_" + perm["kind"], 0) + 1
        byname = {o.name: o for o in scn.objects.objects}
        if masks is None:
            masks = []
            for o in objs:
                po = byname[o["name"]]
                got = [list(t) for t in po.grid_slice_tuple]
                if got != [list(b) for b in o["box"]]:
                    raise env.HarnessError(f"generator/box mismatch for {o['name']}: placed {got}, spec {o['box']}")
                m = np.zeros(shape, dtype=bool)
                sl = tuple(slice(b[0], b[1]) for b in o["box"])
                if o["kind"] == "box":
                    m[sl] = True
                else:
                    vm = np.asarray(po.get_voxel_mask_for_shape()).astype(bool)
                    m[sl] = np.broadcast_to(vm, m[sl].shape)
                    stats["probe_" + o["kind"]] = stats.get("probe_" + o["kind"], 0) + 1
                masks.append(m)
        # ---- last-writer-wins map: arg-max over (placement_order, list position) among covering objects
        pos = {nm: i for i, nm in enumerate(perm["list"])}
        key = np.full((len(objs) + 1, *shape), -np.inf)
        key[0] = -1e12  # the volume covers everything and is the lowest writer
        for i, o in enumerate(objs):
            key[i + 1][masks[i]] = o["order"] * 1000.0 + pos[o["name"]]
        winner = np.argmax(key, axis=0)
        cover = sum(m.astype(int) for m in masks)
        # ---- expected arrays
        mats = dr.materials_np(scn.arrays)
        raw_mu = scn.arrays.inv_permeabilities

        def expected(prop, c, invert, scale=1.0):
            tab = np.stack([_components(M, c, invert) * scale for M in P[prop]])  # (n_mat, c)
            return np.moveaxis(tab[winner], -1, 0)

        def compare(name, got, want, monitor):
            if got.shape != want.shape:
                V("wrong_component_count", array=name, got=list(got.shape), want=list(want.shape), perm=pi, perm_kind=perm["kind"])
                return
            d = dr.rel_diff(want, got)
            resid[monitor] = max(resid.get(monitor, 0.0), d if np.isfinite(d) else 1e300)
            if not (d <= TOL):
                bad = np.argwhere(np.abs(got - want) > TOL * max(np.max(np.abs(want)), 1e-300))
                c0 = [int(x) for x in bad[0]] if len(bad) else None
                cell = tuple(c0[1:]) if c0 else None
                V(monitor, array=name, value=d, tolerance=TOL, perm=pi, perm_kind=perm["kind"], list=perm["list"], first_bad=c0, cells_bad=int(len(bad)),
                  expected_writer=(["volume"] + [o["name"] for o in objs])[int(winner[cell])] if cell else None,
                  covering=[o["name"] for o, m in zip(objs, masks) if cell and m[cell]])

        compare("inv_permittivities", mats["inv_permittivities"], expected("permittivity", tiers["permittivity"], True), "wrong_inv_permittivity")
        if not magnetic:
            stats["probe_non_magnetic"] = 1
            if np.ndim(raw_mu) != 0 or float(raw_mu) != 1.0:
                V("permeability_not_scalar_one", got_shape=list(np.shape(raw_mu)), perm=pi)
        else:
            stats["probe_magnetic"] = 1
            if np.ndim(raw_mu) == 0:
                V("wrong_component_count", array="inv_permeabilities", got=[], want=[tiers["permeability"], *shape], perm=pi, perm_kind=perm["kind"])
            else:
                compare("inv_permeabilities", mats["inv_permeabilities"], expected("permeability", tiers["permeability"], True), "wrong_inv_permeability")
        for prop, name, present, monitor in (("electric_conductivity", "electric_conductivity", cond_e, "wrong_electric_conductivity"),
                                             ("magnetic_conductivity", "magnetic_conductivity", cond_h, "wrong_magnetic_conductivity")):
            got = mats.get(name)
            if not present:
                if got is not None and np.any(got != 0):
                    V(monitor, array=name, note="non-zero conductivity in a scene without conductive material", perm=pi)
                continue
            stats["probe_" + name] = 1
            if got is None:
                V("wrong_component_count", array=name, got=None, want=[tiers[prop], *shape], perm=pi, perm_kind=perm["kind"])
                continue
            compare(name, got, expected(prop, tiers[prop], False, cspacing), monitor)
        built.append((perm, mats, None if np.ndim(raw_mu) == 0 else 1))

    # ---- schedule oracle: tie-preserving permutations must not change any array
    base = built[0][1]
    for perm, mats, _ in built[1:]:
        d, k = dr.dict_rel_diff(base, mats)
        if perm["kind"] == "tie_preserving":
            resid["order_permutation_changed_arrays"] = max(resid.get("order_permutation_changed_arrays", 0.0), d if np.isfinite(d) else 1e300)
            if not (d <= 1e-12):
                V("order_permutation_changed_arrays", key=k, value=d, tolerance=1e-12, list=perm["list"], base=spec["perms"][0]["list"])
            if d == 0.0:
                stats["bitwise_equal"] = stats.get("bitwise_equal", 0) + 1
        elif d > 0:
            stats["fault_tie_swap_changed_arrays" if perm["kind"] == "tie_swap" else "fault_random_perm_changed_arrays"] = 1

    # ---- coverage facts
    overlap = bool(np.any(cover >= 2))
    tie_overlap = False
    for i in range(len(objs)):
        for j in range(i + 1, len(objs)):
            if objs[i]["order"] == objs[j]["order"] and np.any(masks[i] & masks[j]):
                tie_overlap = True
    stats["probe_overlap"] = int(overlap)
    stats["probe_tie_overlap"] = int(tie_overlap)
    stats["probe_nonuniform"] = int(not uniform)
    for k, c in tiers.items():
        stats[f"probe_{k}_tier{c}"] = 1
    stats["cells_checked"] = int(np.prod(shape)) * stats["placements"]
    sig = specgen.signature("C28", spec["grid"]["kind"], tiers, magnetic, cond_e, cond_h, sorted(set(o["kind"] for o in objs)), tie_overlap, bool(spec["materials"].get("background")))
    digest = dr.digest_arrays(base) + ":" + ",".join(f"{k}={dr.sig3(v)}" for k, v in sorted(resid.items())) + f":v{len(viol)}"
    return {"violations": viol, "stats": stats, "residuals": resid, "nontrivial": overlap, "signature": sig, "digest": digest}
