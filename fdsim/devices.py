"""Device specs -> fdtdx.Device; seeded parameter sets."""
from __future__ import annotations

import numpy as np


def build_device(dv: dict):
    import fdtdx
    from fdsim.scene import build_material

    mats = {name: build_material(m) for name, m in dv["materials"].items()}
    transforms = []
    if dv["mode"] == "discrete":
        n = len(mats)
        transforms = [fdtdx.StandardToCustomRange(min_value=0, max_value=n - 1), fdtdx.ClosestIndex()]
    return fdtdx.Device(
        name=dv["name"],
        materials=mats,
        param_transforms=transforms,
        partial_voxel_grid_shape=tuple(int(v) for v in dv["voxel"]),
        use_etching=bool(dv.get("etch", False)),
    )


def matrix_shape(dv: dict) -> tuple[int, int, int]:
    return tuple((b[1] - b[0]) // v for b, v in zip(dv["box"], dv["voxel"]))


def make_params(dv: dict, seed: int) -> np.ndarray:
    """Latent parameters in [0,1] (design-voxel resolution). Discrete devices: away from rounding ties."""
    r = np.random.Generator(np.random.PCG64(seed))
    shp = matrix_shape(dv)
    if dv["mode"] == "discrete":
        n = len(dv["materials"])
        idx = r.integers(0, n, size=shp)
        jit = r.uniform(-0.35, 0.35, size=shp)
        return np.clip((idx + jit) / (n - 1), 0.0, 1.0)
    p = r.uniform(0.0, 1.0, size=shp)
    # include exact end points sometimes
    m = r.uniform(size=shp)
    p = np.where(m < 0.1, 0.0, np.where(m > 0.9, 1.0, p))
    return p


def expand(p: np.ndarray, voxel) -> np.ndarray:
    out = p
    for a, v in enumerate(voxel):
        out = np.repeat(out, int(v), axis=a)
    return out


def nearest_index(p: np.ndarray, n: int) -> np.ndarray:
    return np.clip(np.round(p * (n - 1)), 0, n - 1).astype(int)


def sorted_material_names(mats: dict) -> list[str]:
    """Documented common order: ascending by first permittivity, permeability, conductivities components."""

    def first(v, default):
        if v is None:
            return default
        while isinstance(v, (list, tuple)):
            v = v[0]
        return float(v)

    return sorted(
        mats,
        key=lambda k: (first(mats[k].get("permittivity"), 1.0), first(mats[k].get("permeability"), 1.0), first(mats[k].get("electric_conductivity"), 0.0), first(mats[k].get("magnetic_conductivity"), 0.0)),
    )
