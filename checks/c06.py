"""C06 — simulation state depends only on the steps executed, not on how the run is split.

Workload: one scene; reference = one monolithic run through the real loop (`run_fdtd`).
Fault / schedule space: every single cut point (complete), seeded multi-cut schedules, host round
trip of what survives a cut, crash at a progress tick inside the compiled loop followed by a re-run,
reset + re-run, dirty restart from the arrays a previous run returned, repeated runs.
Oracle: equality with the reference (fields, PML state, polarisation, detector states, step count).
"""
from __future__ import annotations

import numpy as np

from fdsim import specgen

PROPERTY = "C06"
LEVEL = "fault_enumeration"
RUNS = {"quick": 16, "thorough": 400}
EXHAUSTIVE_INNER = True
RULE = (
    "seeded random scenes (boundaries per face from periodic/PEC/PMC/none/PML, uniform or non-uniform grid, "
    "random or object materials incl. conductive and dispersive, 1-2 switched sources, 1-3 switched detectors); "
    "per scene every cut point 0..T is enumerated plus seeded multi-cut / crash / reset / dirty-restart ops. "
    "non-trivial = reference run ended with non-zero fields; distinct = boundary tuple x grid kind x material tier x "
    "source/detector kinds x op kinds"
)
REAL = ["place_objects", "apply_params", "run_fdtd", "checkpointed_fdtd", "custom_fdtd_forward", "ArrayContainer.reset", "forward", "progress io_callback"]
STUB = ["durable storage = host numpy copy + pytree flatten/unflatten", "tqdm disabled"]
ASSUMPTIONS = ["float64; equality criterion 1e-12 relative to the per-array max (bitwise equality is counted separately)", "XLA CPU single-threaded"]
TECHNIQUE = "deterministic simulation: seeded cut/resume, crash-at-tick, reset and dirty-restart schedules against a monolithic reference run"
LEVEL_TEXT = (
    "Seeded search over scenes x split/crash/reset schedules; per scene every single cut point is enumerated. "
    "A clean batch is evidence that state is a function of executed steps only, not a proof."
)
LEVEL_NOTE = "float64, XLA CPU single thread; crash points inside the compiled loop are progress-tick granular; durable storage is a host copy"
TOL = 1e-12


def generate(rng, tier, index):
    spec = specgen.rand_scene(rng, T=(5, 14), dispersive=True)
    T = spec["steps"]
    ops = [{"op": "cuts_all", "roundtrip": bool(rng.uniform() < 0.5)}]
    for _ in range(int(rng.integers(1, 4))):
        n = int(rng.integers(2, 5))
        cuts = sorted(set(int(x) for x in rng.integers(0, T + 1, size=n)))
        ops.append({"op": "multicut", "cuts": cuts, "roundtrip": [bool(rng.uniform() < 0.5) for _ in cuts]})
    ops.append({"op": "crash_at", "tick": int(rng.integers(0, T))})
    ops.append({"op": "reset_rerun"})
    ops.append({"op": "rerun_returned", "times": int(rng.integers(1, 3))})
    # the same dirty restart under a gradient strategy: the first run and every re-run from the arrays it returned go through
    # reversible_fdtd (its own re-packing of the returned container) or the checkpointed loop
    ops.append({"op": "rerun_returned", "times": int(rng.integers(1, 3)), "strategy": specgen.choice(rng, ["reversible", "reversible", "checkpointed"]),
                "k": int(rng.integers(0, max(1, T - 1))), "n": int(rng.integers(1, T + 1))})
    ops.append({"op": "cut_then_reset", "cut": int(rng.integers(1, T + 1))})
    # the loop's own reset flag on a *used* container (e.g. a warm-up phase that does not record), then a recording continuation:
    # must equal the same two calls on a pristine container
    ops.append({"op": "reset_flag_on_used_container", "cut": int(rng.integers(0, T)), "record_first": bool(rng.uniform() < 0.4)})
    order = rng.permutation(len(ops))
    spec["ops"] = [ops[i] for i in order]
    # non-dispersive scenes are placed with a reversible gradient configuration so that the interface-recording state exists
    # (the time-reversible method refuses dispersive media); every other operation runs with the gradient configuration removed
    m = spec["materials"]
    disp = any("dispersion" in (o.get("material") or {}) for o in m.get("objects", [])) or bool((m.get("background") or {}).get("dispersion"))
    if not disp:
        spec["gradient"] = {"method": "reversible", "recorder": []}
    return spec


def shrink(spec):
    out = specgen.generic_shrinks(spec)
    import copy

    if spec["steps"] > 3:
        s = copy.deepcopy(spec)
        s["steps"] = spec["steps"] - 1
        for op in s["ops"]:
            if "cuts" in op:
                op["cuts"] = [min(c, s["steps"]) for c in op["cuts"]]
            if "tick" in op:
                op["tick"] = min(op["tick"], s["steps"] - 1)
            if "cut" in op:
                op["cut"] = min(op["cut"], s["steps"])
        out.append(s)
    return out


class _Crash(Exception):
    pass


def execute(spec):
    import jax
    import jax.numpy as jnp
    import fdtdx
    from fdtdx.fdtd.fdtd import custom_fdtd_forward
    from fdsim import scene as sc, driver as dr

    try:
        scn = sc.build_scene(spec)
    except (ValueError, NotImplementedError) as e:
        return {"rejected": True, "nontrivial": False, "stats": {"rejected": 1}, "digest": "rejected:" + type(e).__name__}
    T = scn.T
    objs, cfg_placed, key = scn.objects, scn.config, scn.key
    cfg = cfg_placed.aset("gradient_config", None)
    arrays0 = scn.arrays
    viol = []
    stats = {"sim_steps": 0, "sim_time_fs": 0.0}
    resid = {}

    def count(n):
        stats["sim_steps"] += n
        stats["sim_time_fs"] += n * scn.dt * 1e15

    def fault(k, n=1):
        stats["fault_" + k] = stats.get("fault_" + k, 0) + n

    # reference: monolithic run through the real loop
    ref_t, ref_arr = fdtdx.run_fdtd(arrays0, objs, cfg, key, show_progress=False)
    count(T)
    ref = dr.full_np((ref_t, ref_arr))
    mats0 = dr.materials_np(arrays0)
    if int(ref_t) != T:
        viol.append({"monitor": "step_count", "got": int(ref_t), "want": T})
    nontrivial = bool(np.max(np.abs(ref["f/E"])) > 0 or np.max(np.abs(ref["f/H"])) > 0)
    stats["probe_dispersive"] = int("f/P_curr" in ref)
    stats["probe_pml"] = int(any(k.startswith("f/psi_E") for k in ref))
    stats["probe_conductive"] = int("electric_conductivity" in mats0)

    def compare(state, monitor, extra):
        got = dr.full_np(state)
        d, k = dr.dict_rel_diff(ref, got)
        resid[monitor] = max(resid.get(monitor, 0.0), d if np.isfinite(d) else 1e300)
        if int(state[0]) != T:
            viol.append({"monitor": "step_count", "got": int(state[0]), "want": T, **extra})
        if not (d <= TOL):
            viol.append({"monitor": monitor, "metric": "rel_diff", "value": d, "tolerance": TOL, "key": k, **extra})
        if d == 0.0:
            stats["bitwise_equal"] = stats.get("bitwise_equal", 0) + 1
        stats["comparisons"] = stats.get("comparisons", 0) + 1

    # the driver's own stepping must agree with the real loop
    st = dr.Stepper(scn)
    s = st.fwd(st.state0(arrays0.reset()), T)
    count(T)
    compare(s, "driver_vs_loop", {})

    # one compiled partial-run function for all cut points (traced start/end)
    @jax.jit
    def partial_run(arrays, a, b):
        return custom_fdtd_forward(arrays, objs, cfg, key, reset_container=False, record_detectors=True, start_time=a, end_time=b, show_progress=False)

    def seg(arrays, a, b):
        count(max(0, b - a))
        return partial_run(arrays, jnp.asarray(a, jnp.int32), jnp.asarray(b, jnp.int32))

    for op in spec.get("ops", []):
        k = op["op"]
        if k == "cuts_all":
            for c in range(0, T + 1):
                t1, a1 = seg(arrays0.reset(), 0, c)
                fault("cut_resume")
                if op.get("roundtrip"):
                    t1, a1 = dr.roundtrip((t1, a1))
                    fault("host_roundtrip")
                s2 = seg(a1, c, T)
                compare(s2, "split_mismatch", {"cuts": [c], "roundtrip": bool(op.get("roundtrip"))})
        elif k == "multicut":
            arr, prev = arrays0.reset(), 0
            for c, rt in zip(op["cuts"], op["roundtrip"]):
                _, arr = seg(arr, prev, c)
                fault("cut_resume")
                if rt:
                    _, arr = dr.roundtrip((jnp.asarray(c), arr))
                    fault("host_roundtrip")
                prev = c
            s2 = seg(arr, prev, T)
            compare(s2, "split_mismatch", {"cuts": op["cuts"], "roundtrip": op["roundtrip"]})
        elif k == "crash_at":
            tick = op["tick"]
            before = dr.digest_arrays({**dr.full_np((0, arrays0)), **dr.materials_np(arrays0)})

            def cb(step, total, tick=tick):
                if step == tick and step < total:
                    raise _Crash()

            crashed = False
            try:
                out = fdtdx.run_fdtd(arrays0, objs, cfg, key, show_progress=False, progress_callback=cb)
                jax.block_until_ready(out)
            except Exception:
                crashed = True
            try:  # drain any pending effects token after the aborted computation
                jax.effects_barrier()
            except Exception:
                pass
            if crashed:
                fault("crash_at_tick")
            after = dr.digest_arrays({**dr.full_np((0, arrays0)), **dr.materials_np(arrays0)})
            if before != after:
                viol.append({"monitor": "crash_inputs_changed", "tick": tick})
            s2 = fdtdx.run_fdtd(arrays0, objs, cfg, key, show_progress=False)
            count(T + tick)
            compare(s2, "crash_rerun_mismatch", {"tick": tick})
        elif k == "reset_rerun":
            r = ref_arr.reset()
            fault("reset")
            _check_reset(r, mats0, viol, "reset")
            s2 = seg(r, 0, T)
            compare(s2, "rerun_mismatch", {"how": "reset"})
        elif k == "rerun_returned" and op.get("strategy"):
            strat = op["strategy"]
            if strat == "reversible" and cfg_placed.gradient_config is None:
                strat = "checkpointed"  # dispersive scene: placed without the interface-recording state
            if strat == "reversible":
                gc = cfg_placed.gradient_config.aset("num_checkpoints_reversible", min(int(op["k"]), T - 1))
            else:
                gc = fdtdx.GradientConfig(method="checkpointed", num_checkpoints=max(1, min(int(op["n"]), T)))
            cfg2 = cfg.aset("gradient_config", gc)
            arr = arrays0
            for i in range(op.get("times", 1) + 1):
                t2, arr = fdtdx.run_fdtd(arr, objs, cfg2, key, show_progress=False)
                count(T)
                fault("dirty_restart_" + strat)
                compare((t2, arr), "rerun_mismatch", {"how": "returned_arrays_" + strat, "iteration": i})
        elif k == "rerun_returned":
            arr = ref_arr
            for i in range(op.get("times", 1)):
                t2, arr = fdtdx.run_fdtd(arr, objs, cfg, key, show_progress=False)
                count(T)
                fault("dirty_restart")
                compare((t2, arr), "rerun_mismatch", {"how": "returned_arrays", "iteration": i})
        elif k == "reset_flag_on_used_container":
            c, rec = int(op["cut"]), bool(op["record_first"])

            def two_calls(arr_in):
                t1, a1 = custom_fdtd_forward(arr_in, objs, cfg, key, reset_container=True, record_detectors=rec, start_time=0, end_time=c, show_progress=False)
                return a1, custom_fdtd_forward(a1, objs, cfg, key, reset_container=False, record_detectors=True, start_time=c, end_time=T, show_progress=False)

            mid_u, end_u = two_calls(ref_arr)
            mid_f, end_f = two_calls(arrays0)
            count(2 * T)
            fault("reset_flag_on_used_container")
            for tag, u, f in (("after_reset_segment", (c, mid_u), (c, mid_f)), ("after_continuation", end_u, end_f)):
                d, kk = dr.dict_rel_diff(dr.full_np(f), dr.full_np(u))
                resid["history_dependent_reset"] = max(resid.get("history_dependent_reset", 0.0), d if np.isfinite(d) else 1e300)
                if not (d <= TOL):
                    viol.append({"monitor": "history_dependent_reset", "metric": "rel_diff", "value": d, "tolerance": TOL, "key": kk, "where": tag, "cut": c, "record_first_segment": rec})
                    break
        elif k == "cut_then_reset":
            c = op["cut"]
            _, a1 = seg(arrays0.reset(), 0, c)
            r = a1.reset()
            fault("reset")
            _check_reset(r, mats0, viol, "reset_after_cut")
            s2 = seg(r, 0, T)
            compare(s2, "rerun_mismatch", {"how": "cut_then_reset", "cut": c})

    sig = specgen.scene_signature(spec, sorted(set(o["op"] for o in spec.get("ops", []))))
    digest = dr.digest_arrays(ref) + ":" + ",".join(f"{k}={dr.sig3(v)}" for k, v in sorted(resid.items())) + f":v{len(viol)}"
    return {"violations": viol, "stats": stats, "residuals": resid, "nontrivial": nontrivial, "signature": sig, "digest": digest}


def _check_reset(r, mats0, viol, how):
    from fdsim import driver as dr

    f = dr.full_np((0, r))
    for k, v in f.items():
        if np.any(v != 0):
            viol.append({"monitor": "reset_not_zero", "key": k, "how": how})
            break
    m = dr.materials_np(r)
    if set(m) != set(mats0) or any(not np.array_equal(m[k], mats0[k]) for k in mats0):
        viol.append({"monitor": "reset_changed_materials", "how": how})
