"""Environment bootstrap: must be imported before jax / fdtdx.

Pins every source of nondeterminism the harness does not own (XLA threading, hash seed is
handled by the launcher), selects the tree under test and silences the library's loggers.
"""
import os
import sys

REPO_SRC = os.environ.get("VERIF_REPO_SRC", "/repo/src")

_done = False


def bootstrap(x64: bool = True, devices: int | None = None, threads: int = 1):
    global _done
    if _done:
        return
    flags = []
    if devices:
        flags += [f"--xla_force_host_platform_device_count={devices}"]
    if threads == 1:
        flags += ["--xla_cpu_multi_thread_eigen=false", "intra_op_parallelism_threads=1"]
    os.environ["XLA_FLAGS"] = " ".join(flags)
    os.environ.setdefault("JAX_PLATFORMS", "cpu")
    os.environ["JAX_ENABLE_X64"] = "1" if x64 else "0"
    if threads == 1:
        for v in ("OMP_NUM_THREADS", "OPENBLAS_NUM_THREADS", "MKL_NUM_THREADS"):
            os.environ[v] = "1"
    os.environ.setdefault("TQDM_DISABLE", "1")
    os.environ.setdefault("LOGURU_LEVEL", "ERROR")
    if REPO_SRC not in sys.path:
        sys.path.insert(0, REPO_SRC)
    elif sys.path[0] != REPO_SRC:
        sys.path.remove(REPO_SRC)
        sys.path.insert(0, REPO_SRC)
    import warnings

    warnings.filterwarnings("ignore")
    import fdtdx  # noqa

    src = os.path.realpath(os.path.dirname(fdtdx.__file__))
    want = os.path.realpath(os.path.join(REPO_SRC, "fdtdx"))
    if src != want:
        raise HarnessError(f"fdtdx imported from {src}, expected {want}")
    try:
        from loguru import logger

        logger.remove()
    except Exception:
        pass
    import logging

    import jax

    for nm in ("jax._src.callback", "jax._src.dispatch", "jax"):
        logging.getLogger(nm).setLevel(logging.CRITICAL)
    jax.config.update("jax_enable_x64", bool(x64))
    _done = True


class HarnessError(Exception):
    """Anything that is the harness's fault (never a property violation)."""
