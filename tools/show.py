#!/usr/bin/env python
"""Compact view of `run_check.py <P> --index i` output (stdin): one short block per run."""
import json
import sys

raw = sys.stdin.read()
try:
    d = json.loads(raw)
except Exception:
    print("UNPARSEABLE:", raw[-600:])
    sys.exit(0)
r, s = d["result"], d["spec"]
head = {k: s.get(k) for k in ("shape", "steps", "mode") if k in s}
print("spec:", json.dumps(head)[:200])
if "harness_error" in r:
    print("HARNESS:", r["harness_error"][:300])
    tr = r.get("trace", "")
    print("\n".join(tr.strip().splitlines()[-6:])[:700])
else:
    print("viol:", json.dumps(r.get("violations"))[:500])
    print("resid:", json.dumps(r.get("residuals"))[:300], "wall", round(r.get("wall_s", 0), 1), "rejected", r.get("rejected"), "nontrivial", r.get("nontrivial"))
    if "-s" in sys.argv:
        print("stats:", json.dumps(r.get("stats"))[:500])
