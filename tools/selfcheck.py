#!/usr/bin/env python
"""setup_cmd: verify the offline environment the checks rely on (no network, nothing installed)."""
import os
import sys

ROOT = os.path.dirname(os.path.dirname(os.path.abspath(__file__)))
sys.path.insert(0, ROOT)
from fdsim import env  # noqa: E402

env.bootstrap()
import fdtdx  # noqa: E402
import jax  # noqa: E402
import jsonschema  # noqa: F401,E402

print("fdtdx from", os.path.dirname(fdtdx.__file__), "jax", jax.__version__, "x64", jax.config.read("jax_enable_x64"))
for d in ("evidence", "replays"):
    os.makedirs(os.path.join(ROOT, d), exist_ok=True)
# every registered check module and the engine must import (catches a syntax slip before any check runs)
import importlib  # noqa: E402
import json  # noqa: E402

for c in json.load(open(os.path.join(ROOT, "MANIFEST.json")))["checks"]:
    importlib.import_module("checks." + c["property_id"].lower())
importlib.import_module("fdsim.engine")
print("selfcheck ok")
