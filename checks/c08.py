"""C08 — the solver is equivariant under cyclic relabelling of the axes (x->y->z->x).

Replicas: scene S and its images under the relabelling applied once and twice (volume shape, grid
edges, per-cell material tensors with rows/columns/components relabelled, every boundary face with
its PML thickness, Bloch vector, source boxes / polarisation axes / polarisation vectors, detector
boxes and component names).  All three are stepped in lockstep (one real `forward` per step); after
every step fields, PML auxiliaries and raw detector records of image k must equal the relabelled
state of S.  One replica is also pushed through the library's own loop (run_fdtd, or
custom_fdtd_forward with a seeded cut when there is an initial field) and must end in the stepped state.
"""
from __future__ import annotations

import numpy as np

from fdsim import replica as rp
from fdsim import specgen

PROPERTY = "C08"
LEVEL = "exploration"
RUNS = {"quick": 16, "thorough": 300}
TOL = 1e-11
RULE = (
    "seeded random scenes, 4-6 cells per axis (more with PML) (non-cubic), per-face boundaries from periodic / Bloch pairs (random k) / PEC / PMC / none / "
    "PML 2-3 cells, uniform or random non-uniform edges, per-cell random material tensors (isotropic / diagonal / full SPD eps and mu, "
    "optional diagonal conductivities), 1-2 sources (electric / magnetic dipole incl. tilted, at most one uniform or Gaussian plane source with "
    "random in-plane polarisation, switches, cw/pulse), 1-3 raw detectors (exact_interpolation=False; field, energy, Poynting, phasor), "
    "random initial field in ~50% of runs; each scene is built in all three cyclic orientations. Tensor materials are made exactly "
    "isotropic on plane-source planes. non-trivial = fields non-zero at the end; distinct = boundary tuple x grid kind x material tiers x "
    "source/detector kinds x initial-field flag x loop kind"
)
REAL = ["place_objects", "apply_params", "Source.apply", "Detector.apply", "forward", "run_fdtd", "custom_fdtd_forward", "all boundary classes"]
STUB = ["per-cell material arrays are written into the placed ArrayContainer (no public constructor for per-cell tensors)", "tqdm disabled"]
ASSUMPTIONS = [
    "float64; agreement criterion 1e-11 relative to the per-array max (arrays below 1e-3 of the field maximum, and field / Poynting records below the corresponding scale, are judged on that absolute scale so that components which vanish by cancellation are not compared with their own round-off)",
    "plane sources sit on planes whose material is exactly isotropic (the library rejects anisotropic planes); a scene rejected with a documented error counts as rejected",
    "detectors are raw (exact_interpolation=False) as the statement requires; energy detectors are not used in as_slices mode",
    "plane sources span >= 2 cells on both transverse axes (the library takes the first unit axis as propagation axis)",
]
TECHNIQUE = "deterministic simulation: three relabelled replicas stepped in lockstep by the driver, one replica also through the real loop with a seeded cut"
LEVEL_TEXT = (
    "Seeded search over scenes; every scene is run in all three cyclic orientations and compared after every step. "
    "A clean batch is evidence of equivariance for the sampled constructs, not a proof."
)
LEVEL_NOTE = "float64, XLA CPU single thread; the oracle is the same code in another orientation (a defect that is itself cyclically symmetric is invisible)"


def generate(rng, tier, index):
    spec = rp.rand_scene(rng, T=(5, 10), shape=(4, 6), pml=(2, 3), bloch_p=0.25, p_nonuniform=0.4, n_sources=(1, 2), max_plane=1, exact=False)
    T = spec["steps"]
    # every scene also carries one area-weighted (reduced) flux plane of >= 2 x 2 cells: its face-area weights are
    # orientation-specific code (one branch per normal axis), seen by all three relabelled replicas
    d = specgen.rand_detector(rng, "dflux", spec["shape"], T, kinds=("poynting",), switch=True)
    d["reduce"], d["exact"] = True, False
    spec["detectors"].append(d)
    spec["init_seed"] = int(rng.integers(0, 2**31)) if rng.uniform() < 0.5 else None
    spec["loop"] = {"replica": int(rng.integers(0, 3)), "cut": int(rng.integers(1, T)) if rng.uniform() < 0.7 else None}
    return spec


def shrink(spec):
    return rp.shrinks(spec, min_sources=0)


def execute(spec):
    rp.setup()
    from fdsim import driver as dr

    specs = [rp.perm_spec(spec, k) for k in range(3)]
    ra0 = rp.base_arrays(spec)
    try:
        scenes = [rp.build(specs[k], rp.perm_arrays(ra0, k)) for k in range(3)]
    except (ValueError, NotImplementedError) as e:
        return rp.rejected(e)
    T = scenes[0].T
    if any(s.T != T for s in scenes):
        raise rp.env.HarnessError("replicas disagree on the number of steps")
    mon = rp.Monitors()
    stats = {"sim_steps": 0, "sim_time_fs": 0.0, **rp.common_probes(spec)}

    arrays = [s.arrays for s in scenes]
    stats["probe_complex"] = int(np.iscomplexobj(np.array(arrays[0].fields.E)))
    steppers = [dr.Stepper(s) for s in scenes]
    if spec.get("init_seed") is not None:
        E0, H0, stats["init_scale"], n = rp.balanced_init(scenes[0], steppers[0], spec["init_seed"])
        rp.count_steps(stats, n, scenes[0].dt)
        arrays = [rp.set_fields(scenes[k], rp.perm_vec(E0, k), rp.perm_vec(H0, k)) for k in range(3)]
    states = [st.state0(a) for st, a in zip(steppers, arrays)]
    dets = {d["name"]: d for d in spec["detectors"]}

    f0, g_run = None, 0.0
    for t in range(T):
        states = [st.fwd(s) for st, s in zip(steppers, states)]
        rp.count_steps(stats, 3, scenes[0].dt)
        f0 = dr.fields_np(states[0])
        r0 = dr.detectors_np(states[0])
        g = rp.field_scale(f0)
        g_run = max(g_run, g)
        for k in (1, 2):
            mon.dicts("fields_vs_relabelled", t, rp.perm_fields(f0, k), dr.fields_np(states[k]), TOL, floors=rp.FLOOR * g, replica=k)
            want = {key: rp.perm_detector_record(dets[key.split("/")[0]], key, v, k) for key, v in r0.items()}
            mon.dicts("records_vs_relabelled", t, want, dr.detectors_np(states[k]), TOL, floors=rp.record_floors(spec, g_run, want), replica=k)
    nontrivial = bool(np.max(np.abs(f0["E"])) > 0 or np.max(np.abs(f0["H"])) > 0)

    # the same replica through the library's own loop ("schedule applied asymmetrically")
    lp = spec.get("loop") or {}
    k = int(lp.get("replica", 0))
    fired = rp.loop_check(mon, stats, scenes[k], arrays[k], states[k], lp, spec.get("init_seed") is None, TOL, k)

    sig = specgen.scene_signature(spec, spec.get("init_seed") is not None, sorted(fired))
    return rp.finish(mon, stats, nontrivial, sig, f0)
