"""Seeded generators for scene specs (no jax import; runs in the parent process).

Times are stored in units of the library's dt ("*_dt" keys) and converted at build time, so the
generator never needs to know dt; knife edges are avoided by using half-integer multiples.
"""
from __future__ import annotations

import numpy as np

FACES = ("min_x", "max_x", "min_y", "max_y", "min_z", "max_z")
SPACING = 50e-9


def choice(r, seq, p=None):
    return seq[int(r.choice(len(seq), p=p))]


def rand_shape(r, lo=4, hi=10):
    return [int(r.integers(lo, hi + 1)) for _ in range(3)]


def rand_faces(r, kinds_pair=("periodic",), kinds_single=("pec", "pmc", "none"), pml=None, bloch=False, force_pair_axes=()):
    """Per-axis: either a wrap pair (periodic / bloch) on both faces, or independent single kinds.

    pml: None or (tmin, tmax) allowed thickness range -> 'pml' joins the single kinds.
    """
    faces = {}
    singles = list(kinds_single) + (["pml"] if pml else [])
    pairs = list(kinds_pair) + (["bloch"] if bloch else [])
    for a, ax in enumerate("xyz"):
        use_pair = pairs and (a in force_pair_axes or r.uniform() < (0.4 if singles else 1.0))
        if not singles:
            use_pair = True
        if use_pair and pairs:
            k = choice(r, pairs)
            faces[f"min_{ax}"] = {"kind": k}
            faces[f"max_{ax}"] = {"kind": k}
        else:
            for d in ("min", "max"):
                k = choice(r, singles)
                f = {"kind": k}
                if k == "pml":
                    f["thickness"] = int(r.integers(pml[0], pml[1] + 1))
                faces[f"{d}_{ax}"] = f
    return faces


def fit_shape(shape, faces, min_inner=2):
    """Grow `shape` in place so that every axis keeps >= min_inner cells outside its PML slabs."""
    for a, ax in enumerate("xyz"):
        t = sum(faces[f"{d}_{ax}"].get("thickness", 0) for d in ("min", "max") if faces[f"{d}_{ax}"]["kind"] == "pml")
        shape[a] = max(shape[a], t + min_inner)
    return shape


def rand_grid(r, shape, p_nonuniform=0.5, ratio=2.0):
    if r.uniform() < p_nonuniform:
        edges = []
        for n in shape:
            w = SPACING * np.exp(r.uniform(-0.5 * np.log(ratio), 0.5 * np.log(ratio), size=n))
            e = np.concatenate([[0.0], np.cumsum(w)])
            e = e - e[-1] / 2
            edges.append([float(x) for x in e])
        return {"kind": "rect", "edges": edges}
    return {"kind": "uniform", "spacing": SPACING}


def rand_box(r, shape, min_size=1, max_size=None, inner=None, touch_bias=0.35):
    """Random box [[lo,hi]..]; `inner` = [[lo,hi]..] region it must stay inside (default whole)."""
    box = []
    for a in range(3):
        lo_b, hi_b = (0, shape[a]) if inner is None else inner[a]
        span = hi_b - lo_b
        mx = span if max_size is None else min(span, max_size if isinstance(max_size, int) else max_size[a])
        mn = min_size if isinstance(min_size, int) else min_size[a]
        mn = min(mn, span)
        size = int(r.integers(mn, max(mn, mx) + 1))
        u = r.uniform()
        if u < touch_bias / 2:
            lo = lo_b
        elif u < touch_bias:
            lo = hi_b - size
        else:
            lo = int(r.integers(lo_b, hi_b - size + 1))
        box.append([int(lo), int(lo + size)])
    return box


def inner_region(shape, faces, margin=0):
    """Region outside every PML slab (plus margin)."""
    reg = []
    for a, ax in enumerate("xyz"):
        lo, hi = 0, shape[a]
        f = faces.get(f"min_{ax}", {"kind": "none"})
        if f["kind"] == "pml":
            lo = f["thickness"]
        f = faces.get(f"max_{ax}", {"kind": "none"})
        if f["kind"] == "pml":
            hi = shape[a] - f["thickness"]
        reg.append([lo + margin, hi - margin])
    return reg


def rand_switch(r, T, p_default=0.3, need_active=False):
    """Random OnOffSwitch spec in dt units, away from knife edges (half-integer times).

    need_active: redraw (bounded) until at least one step of 0..T-1 is active.
    """
    if need_active:
        for _ in range(20):
            s = rand_switch(r, T, p_default)
            if any(switch_on_list(s, T)):
                return s
        return None
    u = r.uniform()
    if u < p_default:
        return None
    kind = choice(r, ["window", "start_only", "end_only", "duration", "interval", "fixed", "off", "duration_end"])
    if kind == "off":
        return {"is_always_off": True}
    if kind == "fixed":
        n = int(r.integers(1, max(2, T // 2 + 1)))
        steps = sorted(int(x) for x in r.choice(T, size=min(n, T), replace=False))
        u2 = r.uniform()
        if u2 < 0.12:
            steps = []  # a valid schedule with no active step at all
        elif u2 < 0.5 and len(steps) > 1:
            steps = [int(x) for x in r.permutation(steps)]  # the list is a set of steps: its order must not matter
        return {"fixed_on_time_steps": steps}
    a = int(r.integers(0, T)) + 0.5
    b = int(r.integers(int(a), T + 2)) + 0.5
    s = {}
    if kind == "window":
        s = {"start_time_dt": a - 1.0, "end_time_dt": b}
    elif kind == "start_only":
        s = {"start_time_dt": a - 1.0}
    elif kind == "end_only":
        s = {"end_time_dt": b}
    elif kind == "duration":
        # durations are quarter-odd so that start + duration (half-integer + x.25) is never a whole step: a half-integer
        # duration would put the derived end exactly on a step, where `t*dt <= start + duration` is decided by float rounding
        s = {"start_time_dt": a - 1.0, "on_for_time_dt": float(int(r.integers(0, T)) + 0.25)}
    elif kind == "duration_end":
        s = {"end_time_dt": b, "on_for_time_dt": float(int(r.integers(0, T)) + 0.25)}
    elif kind == "interval":
        s = {"interval": int(r.integers(2, 5))}
        if r.uniform() < 0.5:
            s["start_time_dt"] = a - 1.0
    if r.uniform() < 0.25 and "interval" not in s:
        s["interval"] = int(r.integers(2, 4))
    return s


def switch_on_list(sw: dict | None, T: int) -> list[bool]:
    """Independent re-statement of the documented window rule, in dt units (t*dt in [start,end])."""
    if not sw:
        return [True] * T
    if sw.get("is_always_off"):
        return [False] * T
    if sw.get("fixed_on_time_steps") is not None:
        s = set(sw["fixed_on_time_steps"])
        return [t in s for t in range(T)]
    start = sw.get("start_time_dt")
    end = sw.get("end_time_dt")
    dur = sw.get("on_for_time_dt")
    if start is None and end is None:
        start = 0.0
        end = dur if dur is not None else float("inf")
    elif start is None:
        start = end - dur if dur is not None else 0.0
    elif end is None:
        end = start + dur if dur is not None else float("inf")
    iv = int(sw.get("interval", 1))
    return [(start <= t <= end) and (t % iv == 0) for t in range(T)]


def rand_profile(r, cells_per_wl):
    if r.uniform() < 0.5:
        p = {"kind": "cw"}
        if r.uniform() < 0.5:
            p["phase_shift"] = float(r.uniform(0, 2 * np.pi))
        return p
    return {"kind": "pulse", "center_wavelength": cells_per_wl * SPACING, "width_wavelength": cells_per_wl * SPACING * float(r.uniform(3, 8))}


def rand_dipole(r, name, shape, region, T, allow_switch=True, magnetic_ok=True):
    pos = [int(r.integers(region[a][0], region[a][1])) for a in range(3)]
    cpw = float(r.uniform(6, 14))
    s = {
        "kind": "dipole",
        "name": name,
        "box": [[p, p + 1] for p in pos],
        "polarization": int(r.integers(0, 3)),
        "source_type": choice(r, ["electric", "magnetic"]) if magnetic_ok else "electric",
        "wavelength": cpw * SPACING,
        "amplitude": float(r.uniform(0.5, 2.0)),
        "profile": rand_profile(r, cpw),
    }
    if r.uniform() < 0.3:
        s["azimuth"] = float(r.uniform(-40, 40))
        s["elevation"] = float(r.uniform(-40, 40))
    if allow_switch:
        sw = rand_switch(r, T)
        if sw:
            s["switch"] = sw
    return s


def rand_plane_source(r, name, shape, region, T, kind=None, allow_switch=True, axis=None):
    """Plane source spanning the full transverse extent of `region` at a random plane."""
    axis = int(r.integers(0, 3)) if axis is None else axis
    if region[axis][1] - region[axis][0] < 3:
        return None
    pos = int(r.integers(region[axis][0] + 1, region[axis][1] - 1))
    box = [list(region[a]) for a in range(3)]
    box[axis] = [pos, pos + 1]
    cpw = float(r.uniform(8, 16))
    kind = kind or choice(r, ["uniform_plane", "gaussian_plane"])
    t1, t2 = [(axis + 1) % 3, (axis + 2) % 3]
    pol = [0.0, 0.0, 0.0]
    ang = float(r.uniform(0, 2 * np.pi))
    pol[t1], pol[t2] = float(np.cos(ang)), float(np.sin(ang))
    s = {
        "kind": kind,
        "name": name,
        "box": box,
        "direction": choice(r, ["+", "-"]),
        "wavelength": cpw * SPACING,
        "profile": rand_profile(r, cpw),
        "e_pol": pol,
    }
    if kind == "gaussian_plane":
        s["radius"] = float(r.uniform(2, 5)) * SPACING
    else:
        s["amplitude"] = float(r.uniform(0.5, 2.0))
    if allow_switch:
        sw = rand_switch(r, T)
        if sw:
            s["switch"] = sw
    return s


def rand_tfsf_region(r, name, shape, region, T, faces=None, allow_switch=True):
    """Total-field/scattered-field box source: >= 2 cells per axis, one cell away from the region's ends (its H
    correction sits one cell outside the box); a transverse axis with a wrap pair may be declared periodic (box then
    spans the whole axis).  Returns None when the region is too small."""
    axis = int(r.integers(0, 3))
    box, periodic = [], []
    for a, ax in enumerate("xyz"):
        lo, hi = region[a][0] + 1, region[a][1] - 1
        # only plain periodic axes (zero Bloch phase) may be declared wrap axes of a TFSF box: the library refuses phase-shifted ones
        wrap = faces is not None and a != axis and faces[f"min_{ax}"]["kind"] == "periodic" and faces[f"max_{ax}"]["kind"] == "periodic"
        if wrap and r.uniform() < 0.5:
            periodic.append(a)
            box.append([0, shape[a]])
            continue
        if hi - lo < 2:
            return None
        size = int(r.integers(2, hi - lo + 1))
        p = int(r.integers(lo, hi - size + 1))
        box.append([p, p + size])
    t1, t2 = [(axis + 1) % 3, (axis + 2) % 3]
    pol = [0.0, 0.0, 0.0]
    ang = float(r.uniform(0, 2 * np.pi))
    pol[t1], pol[t2] = float(np.cos(ang)), float(np.sin(ang))
    cpw = float(r.uniform(8, 16))
    s = {"kind": "tfsf_region", "name": name, "box": box, "axis": axis, "direction": choice(r, ["+", "-"]), "periodic_axes": periodic,
         "wavelength": cpw * SPACING, "profile": rand_profile(r, cpw), "e_pol": pol, "amplitude": float(r.uniform(0.5, 2.0))}
    if allow_switch:
        sw = rand_switch(r, T)
        if sw:
            s["switch"] = sw
    return s


def rand_mode_source(r, name, shape, region, T, allow_switch=True):
    """Mode source on a full transverse plane of `region` (the mode solver runs on whatever materials lie there)."""
    axis = int(r.integers(0, 3))
    # >= 6 x 6 transverse cells: the external eigen-solver (ARPACK) gives up on smaller homogeneous cross-sections
    if region[axis][1] - region[axis][0] < 3 or any(region[a][1] - region[a][0] < 6 for a in range(3) if a != axis):
        return None
    pos = int(r.integers(region[axis][0] + 1, region[axis][1] - 1))
    box = [list(region[a]) for a in range(3)]
    box[axis] = [pos, pos + 1]
    cpw = float(r.uniform(8, 16))
    s = {"kind": "mode", "name": name, "box": box, "direction": choice(r, ["+", "-"]), "wavelength": cpw * SPACING, "profile": rand_profile(r, cpw),
         "mode_index": int(r.integers(0, 2))}
    if allow_switch:
        sw = rand_switch(r, T)
        if sw:
            s["switch"] = sw
    return s


ALL_COMPONENTS = ("Ex", "Ey", "Ez", "Hx", "Hy", "Hz")


def rand_components(r):
    k = int(r.integers(1, 7))
    idx = sorted(int(i) for i in r.choice(6, size=k, replace=False))
    return [ALL_COMPONENTS[i] for i in idx]


def rand_field_detector(r, name, shape, T, exact=None, inner=None, switch=True):
    d = {
        "kind": "field",
        "name": name,
        "box": rand_box(r, shape, inner=inner),
        "exact": bool(r.uniform() < 0.5) if exact is None else exact,
        "components": rand_components(r),
        "reduce": bool(r.uniform() < 0.25),
    }
    if switch:
        sw = rand_switch(r, T, need_active=True)
        if sw:
            d["switch"] = sw
    return d


def signature(*parts) -> str:
    import hashlib
    import json

    return hashlib.sha1(json.dumps(parts, sort_keys=True, default=str).encode()).hexdigest()[:12]


def face_kinds(faces) -> list[str]:
    return [faces.get(f, {"kind": "none"})["kind"] for f in FACES]


# ---------------------------------------------------------------- composite scene generator


def rand_detector(r, name, shape, T, kinds=("field", "energy", "poynting", "phasor"), inner=None, switch=True):
    k = choice(r, list(kinds))
    if k == "field":
        return rand_field_detector(r, name, shape, T, inner=inner, switch=switch)
    d = {"kind": k, "name": name, "exact": bool(r.uniform() < 0.6)}
    if k == "energy":
        d["box"] = rand_box(r, shape, inner=inner)
        d["reduce"] = bool(r.uniform() < 0.5)
    elif k == "poynting":
        ax = int(r.integers(0, 3))
        box = rand_box(r, shape, min_size=2, inner=inner)
        lo_b, hi_b = (0, shape[ax]) if inner is None else inner[ax]
        p = int(r.integers(lo_b, hi_b))
        box[ax] = [p, p + 1]
        d["fixed_propagation_axis"] = ax  # other axes may be one cell wide too, so name the axis explicitly
        d["box"] = box
        d["direction"] = choice(r, ["+", "-"])
        d["reduce"] = bool(r.uniform() < 0.6)
    elif k == "phasor":
        d["box"] = rand_box(r, shape, inner=inner, max_size=4)
        d["wavelengths"] = [float(r.uniform(6, 14)) * SPACING for _ in range(int(r.integers(1, 3)))]
        d["components"] = rand_components(r)
        d["reduce"] = bool(r.uniform() < 0.3)
    if switch:
        sw = rand_switch(r, T, need_active=True)
        if sw:
            d["switch"] = sw
    return d


def rand_materials(r, shape, tiers=("iso", "diag"), p_random=0.6, sigma_e=True, sigma_h=False, mu=True, dispersive=False):
    """Either per-cell random arrays ('random') or a few placed boxes ('objects')."""
    if r.uniform() < p_random:
        m = {"mode": "random", "seed": int(r.integers(0, 2**31)), "eps_tier": choice(r, list(tiers))}
        if mu and r.uniform() < 0.5:
            m["mu_tier"] = choice(r, [t for t in tiers])
        if sigma_e and r.uniform() < 0.4 and m["eps_tier"] != "full":
            m["sigma_e_tier"] = choice(r, ["iso", "diag"])
        if sigma_h and r.uniform() < 0.3 and m.get("mu_tier") in ("iso", "diag"):
            m["sigma_h_tier"] = choice(r, ["iso", "diag"])
        return m
    objs = []
    for i in range(int(r.integers(0, 4))):
        mat = {"permittivity": float(r.uniform(1.5, 6.0))}
        if "diag" in tiers and r.uniform() < 0.3:
            mat["permittivity"] = [float(x) for x in r.uniform(1.5, 6.0, size=3)]
        if mu and r.uniform() < 0.25:
            mat["permeability"] = float(r.uniform(1.2, 3.0))
        if sigma_e and r.uniform() < 0.3:
            mat["electric_conductivity"] = float(r.uniform(0.01, 0.3))
        if dispersive and r.uniform() < 0.5:
            mat["dispersion"] = rand_dispersion(r)
        objs.append({"kind": "box", "name": f"m{i}", "box": rand_box(r, shape, min_size=1), "material": mat, "order": int(r.integers(0, 3))})
    return {"mode": "objects", "objects": objs}


def rand_dispersion(r, n_poles=None, p_per_axis=0.35):
    """Passive Lorentz / Drude poles in physical units; frequencies relative to the 50 nm grid dt.

    With probability p_per_axis a pole is diagonally anisotropic: per-axis 3-lists (x, y, z) for its parameters, one
    axis possibly without a resonance (zero strength)."""
    dt = 0.99 / np.sqrt(3) * SPACING / 299792458.0
    poles = []
    for _ in range(int(r.integers(1, 3)) if n_poles is None else n_poles):
        per_axis = bool(r.uniform() < p_per_axis)

        def val(lo, hi, allow_zero=False):
            if not per_axis:
                return float(r.uniform(lo, hi))
            v = [float(x) for x in r.uniform(lo, hi, size=3)]
            if allow_zero and r.uniform() < 0.4:
                v[int(r.integers(0, 3))] = 0.0
            return v

        def over_dt(v):
            return [x / dt for x in v] if isinstance(v, list) else v / dt

        # Parameter ranges stay inside the coupled ADE/Yee stability limit of the grid Nyquist mode with a factor two to spare,
        # sum_p (w_p dt)^2 (d_eps_p/eps_inf + 1 - S^2) <= 0.5 * 4 (1 - S^2) for S = 0.99, eps_inf >= 1 and two poles: media beyond
        # it are accepted silently by the library and blow up within a few steps (known finding of C36), which would surface as
        # non-finite fields in every other check that merely *uses* a dispersive medium (seen once: C10, seed 5, run 11)
        if r.uniform() < 0.6:
            poles.append({"kind": "lorentz", "w0": over_dt(val(0.03, 0.10)), "gamma": over_dt(val(0.0, 0.1)), "deps": val(0.2, 1.5, allow_zero=True)})
        else:
            poles.append({"kind": "drude", "wp": over_dt(val(0.03, 0.10, allow_zero=True)), "gamma": over_dt(val(0.0, 0.1))})
    return {"poles": poles}


def rand_scene(r, T=(6, 14), shape=(4, 9), pml=(2, 3), bloch=False, p_nonuniform=0.4, tiers=("iso", "diag"),
               n_sources=(1, 2), source_kinds=("dipole", "uniform_plane", "gaussian_plane"), n_detectors=(1, 3),
               detector_kinds=("field", "energy", "poynting", "phasor"), sigma_e=True, sigma_h=False, mu=True,
               dispersive=False, kinds_single=("pec", "pmc", "none"), kinds_pair=("periodic",), switches=True):
    Tn = int(r.integers(T[0], T[1] + 1))
    shp = rand_shape(r, shape[0], shape[1])
    faces = rand_faces(r, kinds_pair=kinds_pair, kinds_single=kinds_single, pml=pml, bloch=bloch)
    # keep at least 2 interior cells per axis
    for a, ax in enumerate("xyz"):
        t = sum(faces[f"{d}_{ax}"].get("thickness", 0) for d in ("min", "max") if faces[f"{d}_{ax}"]["kind"] == "pml")
        if shp[a] - t < 3:
            shp[a] = t + 3
    grid = rand_grid(r, shp, p_nonuniform)
    spec = {"shape": shp, "grid": grid, "steps": Tn, "faces": faces, "key": int(r.integers(0, 2**31))}
    if bloch and any(f["kind"] == "bloch" for f in faces.values()):
        spec["bloch_vector"] = [float(r.uniform(-1, 1) * np.pi / (shp[a] * SPACING)) if faces[f"min_{ax}"]["kind"] == "bloch" else 0.0 for a, ax in enumerate("xyz")]
    mats = rand_materials(r, shp, tiers=tiers, sigma_e=sigma_e, sigma_h=sigma_h, mu=mu, dispersive=dispersive)
    spec["materials"] = mats
    inner = inner_region(shp, faces)
    srcs = []
    # plane sources are rejected by the library on anisotropic arrays: keep them to all-isotropic scenes
    if mats["mode"] == "random":
        all_iso = all(mats.get(k) in (None, "iso") for k in ("eps_tier", "mu_tier", "sigma_e_tier", "sigma_h_tier"))
    else:
        all_iso = all(not isinstance(v, (list, tuple)) for o in mats.get("objects", []) for v in o.get("material", {}).values() if not isinstance(v, dict))
        # per-axis poles make a material anisotropic as far as plane sources are concerned
        all_iso = all_iso and not any(isinstance(v, (list, tuple)) for o in mats.get("objects", []) for p in (o.get("material", {}).get("dispersion") or {}).get("poles", []) for v in p.values())
    for i in range(int(r.integers(n_sources[0], n_sources[1] + 1))):
        k = choice(r, list(source_kinds))
        if not all_iso:
            k = "dipole" if "dipole" in source_kinds else k
        if k == "dipole":
            srcs.append(rand_dipole(r, f"s{i}", shp, inner, Tn, allow_switch=switches))
        elif k in ("tfsf_region", "mode"):
            s = rand_tfsf_region(r, f"s{i}", shp, inner, Tn, faces=faces, allow_switch=switches) if k == "tfsf_region" else rand_mode_source(r, f"s{i}", shp, inner, Tn, allow_switch=switches)
            if s is None:
                s = rand_dipole(r, f"s{i}", shp, inner, Tn, allow_switch=switches)
            srcs.append(s)
        else:
            s = rand_plane_source(r, f"s{i}", shp, inner, Tn, kind=k, allow_switch=switches)
            if s is None:
                s = rand_dipole(r, f"s{i}", shp, inner, Tn, allow_switch=switches)
            srcs.append(s)
    spec["sources"] = srcs
    dets = []
    for i in range(int(r.integers(n_detectors[0], n_detectors[1] + 1))):
        dets.append(rand_detector(r, f"d{i}", shp, Tn, kinds=detector_kinds, switch=switches))
    spec["detectors"] = dets
    return spec


def scene_signature(spec, *extra):
    g = spec["grid"]["kind"]
    m = spec.get("materials", {})
    mt = (m.get("mode"), m.get("eps_tier"), m.get("mu_tier"), m.get("sigma_e_tier"), m.get("sigma_h_tier"), len(m.get("objects", [])))
    sk = sorted((s["kind"], s.get("source_type", ""), bool(s.get("switch")), s.get("profile", {}).get("kind", "cw")) for s in spec.get("sources", []))
    dk = sorted((d["kind"], d.get("exact"), bool(d.get("switch")), d.get("reduce")) for d in spec.get("detectors", []))
    return signature(face_kinds(spec.get("faces", {})), g, mt, sk, dk, spec.get("dtype", "float64"), *extra)


def generic_shrinks(spec):
    """One-step simplifications of a scene spec (used by several checks' shrinkers)."""
    import copy

    out = []

    def var(fn):
        s = copy.deepcopy(spec)
        if fn(s) is not False:
            out.append(s)

    for i in range(len(spec.get("ops", []))):
        var(lambda s, i=i: s["ops"].pop(i))
    for i in range(len(spec.get("detectors", []))):
        if len(spec["detectors"]) > spec.get("_min_detectors", 0):
            var(lambda s, i=i: s["detectors"].pop(i))
    for i in range(len(spec.get("sources", []))):
        if len(spec["sources"]) > spec.get("_min_sources", 0):
            var(lambda s, i=i: s["sources"].pop(i))
    for i, d in enumerate(spec.get("detectors", [])):
        if d.get("switch"):
            var(lambda s, i=i: s["detectors"][i].pop("switch"))
    for i, d in enumerate(spec.get("sources", [])):
        if d.get("switch"):
            var(lambda s, i=i: s["sources"][i].pop("switch"))
    for f in FACES:
        k = spec.get("faces", {}).get(f, {"kind": "none"})["kind"]
        if k in ("pec", "pmc"):
            var(lambda s, f=f: s["faces"].__setitem__(f, {"kind": "none"}))
    if spec["grid"]["kind"] == "rect":
        var(lambda s: s.__setitem__("grid", {"kind": "uniform", "spacing": SPACING}))
    m = spec.get("materials", {})
    if m.get("mode") == "random":
        for k in ("sigma_h_tier", "sigma_e_tier", "mu_tier"):
            if m.get(k):
                var(lambda s, k=k: s["materials"].pop(k))
        if m.get("eps_tier") != "iso":
            var(lambda s: s["materials"].__setitem__("eps_tier", "iso"))
    elif m.get("mode") == "objects":
        for i in range(len(m.get("objects", []))):
            var(lambda s, i=i: s["materials"]["objects"].pop(i))
    return out
