#!/usr/bin/env python
"""Summarise tools/seeded_batch.sh result files: writes seeded/<id>/meta.json and prints the DESIGN.md table.

Usage: seeded_table.py <results.txt> [<results.txt> ...]   (later files override earlier ones per seeded id)
"""
import json
import os
import re
import sys

ROOT = os.path.dirname(os.path.dirname(os.path.abspath(__file__)))


def parse(paths):
    res = {}
    for p in paths:
        cur = None
        for line in open(p):
            m = re.match(r"=== (\S+) vs (\S+) (\S+)", line)
            if m:
                cur = m.group(1)
                res[cur] = {"check": m.group(2), "tier": m.group(3), "monitors": []}
                continue
            m = re.match(r"SEEDED \S+ check=\S+ tier=\S+ rc=(\d+)\s+violations=(\d+) known=(\d+) harness=(\d+)", line)
            if m and cur:
                res[cur].update(rc=int(m.group(1)), violations=int(m.group(2)), known=int(m.group(3)), harness=int(m.group(4)))
                continue
            m = re.match(r"\s+monitor=(\S+)", line)
            if m and cur:
                res[cur]["monitors"].append(m.group(1))
    return res


def main():
    res = parse(sys.argv[1:])
    rows = []
    for sid in sorted(os.listdir(os.path.join(ROOT, "seeded"))):
        d = os.path.join(ROOT, "seeded", sid)
        if not os.path.isfile(os.path.join(d, "patch.diff")):
            continue
        agent = {}
        for name in ("meta.agent.json", "meta.json"):
            f = os.path.join(d, name)
            if os.path.exists(f):
                try:
                    agent = {**json.load(open(f)), **agent} if name == "meta.json" else json.load(open(f))
                except Exception:
                    pass
        prop = re.match(r"S-(C\d+)", sid).group(1)
        r = res.get(sid)
        if r is None:
            verdict = "not run in this batch"
        elif r.get("rc") == 1 and r.get("violations", 0) > 0:
            verdict = "VIOLATION " + ", ".join(f"`{m}`" for m in sorted(set(r["monitors"]))[:3])
        elif r.get("rc") == 0:
            verdict = "missed (exit 0)"
        else:
            verdict = f"harness error (rc={r.get('rc')})"
        summary = (agent.get("summary") or "").strip().replace("\n", " ").replace("|", "/")
        needs = (agent.get("needs_to_manifest") or "").strip().replace("\n", " ").replace("|", "/")
        origin = "independent sub-agent (property text + scratch worktree only)" if "-agent-" in sid else "written here"
        meta = {
            "property": prop,
            "origin": origin,
            "summary": summary,
            "needs_to_manifest": needs,
            "files": agent.get("files"),
            "agent_tests_run": agent.get("tests_run"),
            "agent_tests_result": agent.get("tests_result"),
            "confirmed_here": "tools/confirm_seeded.sh: patch applies to /repo HEAD; demo.py exits 0 on the clean tree and non-zero on the patched tree (scratch worktrees)" if os.path.exists(os.path.join(d, "demo.py")) else "patch applies to /repo HEAD",
            "check_run": f"tools/try_seeded.sh seeded/{sid}/patch.diff {prop} quick (scratch worktree via VERIF_REPO_SRC, VERIF_SEED=0)",
            "check_verdict": verdict,
        }
        json.dump(meta, open(os.path.join(d, "meta.json"), "w"), indent=1)
        rows.append((sid, prop, summary[:230], needs[:200], verdict))
    # per-property kill table, picked up by engine.write_evidence as coverage.mutant_kill_table
    os.makedirs(os.path.join(ROOT, "selftest"), exist_ok=True)
    by_prop = {}
    for sid, prop, summary, needs, verdict in rows:
        by_prop.setdefault(prop, []).append({"seeded_change": sid, "what": summary[:160], "quick_tier_verdict": verdict})
    for prop, lst in by_prop.items():
        json.dump({"source": "tools/seeded_batch.sh + tools/seeded_table.py (scratch worktrees, VERIF_SEED=0, quick tier)", "caught": sum(1 for x in lst if x["quick_tier_verdict"].startswith("VIOLATION")), "total": len(lst), "changes": lst},
                  open(os.path.join(ROOT, "selftest", f"{prop}.json"), "w"), indent=1)
    print("| seeded change | breaks | what it does | needs, to manifest | verdict of the property's quick check |")
    print("|---|---|---|---|---|")
    for sid, prop, summary, needs, verdict in rows:
        print(f"| {sid} | {prop} | {summary} | {needs} | {verdict} |")
    n = len(rows)
    hit = sum(1 for r in rows if r[4].startswith("VIOLATION"))
    print(f"\n{hit} of {n} seeded changes are reported as a VIOLATION by the quick tier of their property's check.")


if __name__ == "__main__":
    main()
