"""C33 — electric-plane symmetry reduction is exact (replica agreement inside the light cone).

Replicas: the full domain, and the same scene placed with config.symmetry = -1 on one axis (the
library reduces it to the upper half and adds the PEC wall).  Materials are constant along that axis;
the full-domain initial field is the unfolding of the reduced random field (parity-consistent by
construction).  Both replicas are stepped in lockstep; after every step the unfolded reduced fields and
the unfolded co-located detector records must equal the full run on every cell that the far boundary
of the discarded half cannot have influenced yet (index >= step + 2 along the symmetry axis).
"""
from __future__ import annotations

import numpy as np

from fdsim import specgen

PROPERTY = "C33"
LEVEL = "exploration"
RUNS = {"quick": 18, "thorough": 400}
RULE = (
    "symmetry axis cycled over x, y, z by run index; full length 2N (N 4-7) along it, 3-7 cells across; per-face boundaries from "
    "{periodic pair, PEC, PMC, none, PML 2-3} (independently on the two faces of the symmetry axis: the discarded half may end differently); "
    "uniform grid or rectilinear grid with mirror-symmetric widths; random iso/diag eps (and mu) constant along the axis; random reduced "
    "initial field; 1-2 co-located field detectors straddling the plane; T <= N-2 steps. non-trivial = compared region non-empty with non-zero "
    "fields; distinct = axis x boundary tuple x grid kind x tiers"
)
REAL = ["place_objects with config.symmetry (domain reduction, object clipping, PEC wall)", "forward", "unfold_fields", "unfold_detector_states", "FieldDetector"]
STUB = []
ASSUMPTIONS = [
    "float64, 1e-11 relative",
    "the parity-consistent initial field is produced with the library's own unfold_fields (its outermost mirrored cell is approximate by design and lies outside the compared region)",
]
TECHNIQUE = "deterministic simulation: lockstep replicas (full vs symmetry-reduced domain) compared after every step inside the light cone"
LEVEL_TEXT = "Seeded exploration over symmetry axis x boundaries x materials; agreement of fields and co-located records after every simulated step."
LEVEL_NOTE = "float64 CPU; electric (PEC) planes only, one symmetric axis per scene, no sources"
TOL = 1e-11


def _single_on_plane_sample(spec, violation):
    """Known finding: unfolding a co-located record that is one cell thick on an x/y electric plane."""
    if violation.get("monitor") != "unfolded_record_shape":
        return False
    d = next((x for x in spec["detectors"] if x["name"] == violation.get("detector")), None)
    planes = [(spec["axis"], spec["N"])] + ([(spec["axis2"], spec["N2"])] if spec.get("axis2") is not None else [])
    return bool(d) and d["exact"] and any(ax in (0, 1) and d["box"][ax][1] - n == 1 for ax, n in planes)


KNOWN_PREDICATES = {"single_on_plane_sample": _single_on_plane_sample}


def generate(rng, tier, index):
    a = index % 3
    N = int(rng.integers(4, 8))
    # one scene in three has a second electric plane (quarter domain): the two planes share an edge
    a2 = int((a + 1 + int(rng.integers(0, 2))) % 3) if rng.uniform() < 0.34 else None
    N2 = int(rng.integers(4, 8))
    sym = {a: N} if a2 is None else {a: N, a2: N2}
    shape = [int(rng.integers(3, 8)) for _ in range(3)]
    for ax_, n_ in sym.items():
        shape[ax_] = 2 * n_
    faces = specgen.rand_faces(rng, kinds_pair=("periodic",), kinds_single=("pec", "pmc", "none"), pml=(2, 3))
    # a symmetry axis never wraps: independent terminating boundaries on its two faces
    for ax_ in sym:
        for d in ("min", "max"):
            k = specgen.choice(rng, ["pec", "pmc", "none", "pml"])
            faces[f"{d}_{'xyz'[ax_]}"] = {"kind": k, **({"thickness": 2} if k == "pml" else {})}
    for b, bx in enumerate("xyz"):
        if b not in sym:
            t = sum(faces[f"{d}_{bx}"].get("thickness", 0) for d in ("min", "max"))
            shape[b] = max(shape[b], t + 2)
    if rng.uniform() < 0.3:
        edges = []
        for b, n in enumerate(shape):
            if b in sym:
                w = specgen.SPACING * np.exp(rng.uniform(-0.3, 0.3, size=sym[b]))
                w = np.concatenate([w[::-1], w])
            else:
                w = specgen.SPACING * np.exp(rng.uniform(-0.3, 0.3, size=n))
            e = np.concatenate([[0.0], np.cumsum(w)])
            edges.append([float(x) for x in (e - e[-1] / 2)])
        grid = {"kind": "rect", "edges": edges}
    else:
        grid = {"kind": "uniform", "spacing": specgen.SPACING}
    Nmin = min(sym.values())
    T = int(rng.integers(2, max(3, Nmin - 1)))
    tier_e = specgen.choice(rng, ["iso", "diag"])
    mats = {"seed": int(rng.integers(0, 2**31)), "eps_tier": tier_e, "const_axis": a if a2 is None else [a, a2]}
    if rng.uniform() < 0.4:
        mats["mu_tier"] = specgen.choice(rng, ["iso", "diag"])
    dets = []
    for i in range(int(rng.integers(1, 3))):
        box = specgen.rand_box(rng, shape, min_size=1)
        for ax_, n_ in sym.items():
            k = int(rng.integers(1, max(2, n_ - T - 1)))
            if k == 1 and ax_ in (0, 1) and rng.uniform() < 0.85:
                k = 2  # a single on-plane sample is a degenerate case (see KNOWN_PREDICATES); keep it rare
            box[ax_] = [n_ - k, n_ + k]
        comps = specgen.rand_components(rng)
        if a2 is not None and i == 0:
            comps = list(specgen.ALL_COMPONENTS)  # the shared edge of two planes matters for one component only: record them all
        if rng.uniform() < 0.6:  # the component tuple is a set as far as the record layout goes: give it in arbitrary order
            comps = [comps[int(j)] for j in rng.permutation(len(comps))]
        dets.append({"kind": "field", "name": f"d{i}", "box": box, "exact": True, "reduce": False, "components": comps})
    spec = {"shape": shape, "grid": grid, "steps": T, "faces": faces, "key": 0, "axis": a, "N": N, "rand_materials": mats, "detectors": dets, "sources": [], "init_seed": int(rng.integers(0, 2**31))}
    if a2 is not None:
        spec["axis2"], spec["N2"] = a2, N2
    return spec


def shrink(spec):
    import copy

    out = []
    for i in range(len(spec["detectors"])):
        s = copy.deepcopy(spec)
        s["detectors"].pop(i)
        out.append(s)
    if spec["grid"]["kind"] == "rect":
        s = copy.deepcopy(spec)
        s["grid"] = {"kind": "uniform", "spacing": specgen.SPACING}
        out.append(s)
    if spec["rand_materials"].get("mu_tier"):
        s = copy.deepcopy(spec)
        s["rand_materials"].pop("mu_tier")
        out.append(s)
    if spec["steps"] > 1:
        s = copy.deepcopy(spec)
        s["steps"] -= 1
        out.append(s)
    return out


def execute(spec):
    import copy

    import fdtdx
    import jax.numpy as jnp
    from fdsim import scene as sc, driver as dr

    a, N, T = spec["axis"], spec["N"], spec["steps"]
    planes = {a: N}
    if spec.get("axis2") is not None:
        planes[int(spec["axis2"])] = int(spec["N2"])
    shape = tuple(spec["shape"])
    rm = spec["rand_materials"]
    full_arrays = sc.random_material_arrays({"mode": "random", **rm}, shape, np.float64)
    sl = [slice(None)] * 4
    for ax_, n_ in planes.items():
        sl[1 + ax_] = slice(n_, 2 * n_)
    red_arrays = {k: (None if v is None else v[tuple(sl)].copy()) for k, v in full_arrays.items()}
    base = {k: v for k, v in spec.items() if k not in ("rand_materials",)}
    base["materials"] = {"mode": "objects", "objects": [], "background": sc._tier_material(rm.get("eps_tier"), rm.get("mu_tier"), None, None)}
    sym = [0, 0, 0]
    for ax_ in planes:
        sym[ax_] = -1
    full_spec = copy.deepcopy(base)
    red_spec = copy.deepcopy(base)
    red_spec["symmetry"] = sym
    try:
        F = sc.build_scene(full_spec, apply=False)
        R = sc.build_scene(red_spec, apply=False)
    except ValueError as e:
        if "symmetr" in str(e).lower():
            return {"rejected": True, "nontrivial": False, "stats": {"rejected": 1}, "digest": "rejected:" + str(e)[:40]}
        raise
    F.arrays = sc.overwrite_materials(F.arrays, full_arrays)
    R.arrays = sc.overwrite_materials(R.arrays, red_arrays)
    F = sc.apply_scene(F, reapply=True)
    R = sc.apply_scene(R, reapply=True)
    if any(tuple(R.shape)[ax_] != n_ for ax_, n_ in planes.items()):
        from fdsim import env

        raise env.HarnessError(f"reduced shape {R.shape} unexpected")
    Er, Hr = sc.random_fields(R, spec["init_seed"], scale=1.0)
    # parity consistency on each plane itself: the components sampled *on* an electric plane and odd
    # across it must vanish there - tangential E (zeroed by the wall above) and normal H
    for ax_ in planes:
        hidx = [slice(None)] * 3
        hidx[ax_] = 0
        Hr = Hr.at[(ax_, *hidx)].set(0)
    symt = tuple(sym)
    Ef = fdtdx.unfold_fields(Er, symt, "E")
    Hf = fdtdx.unfold_fields(Hr, symt, "H")
    for b in F.objects.boundary_objects:  # the full domain's own walls
        Ef = b.apply_post_E_update(Ef)
        Hf = b.apply_post_H_update(Hf)
    stF, stR = dr.Stepper(F), dr.Stepper(R)
    sF = stF.state0(F.arrays.aset("fields->E", Ef).aset("fields->H", Hf))
    sR = stR.state0(R.arrays.aset("fields->E", Er).aset("fields->H", Hr))
    viol, stats, resid = [], {"sim_steps": 2 * T, "sim_time_fs": 2 * T * F.dt * 1e15}, {"fields": 0.0, "records": 0.0}
    nontrivial = False

    def region(n):
        idx = [slice(None)] * 4
        for ax_ in planes:
            idx[1 + ax_] = slice(n + 2, None)
        return tuple(idx)

    for n in range(1, T + 1):
        sF, sR = stF.fwd(sF, 1), stR.fwd(sR, 1)
        fF, fR = dr.fields_np(sF), dr.fields_np(sR)
        for nm, ft in (("E", "E"), ("H", "H")):
            un = np.array(fdtdx.unfold_fields(jnp.asarray(fR[nm]), symt, ft))
            reg = region(n)
            scale = float(np.max(np.abs(fF[nm])))
            d = dr.rel_diff(fF[nm][reg], un[reg], scale if scale > 0 else None)
            resid["fields"] = max(resid["fields"], d if np.isfinite(d) else 1e300)
            nontrivial |= bool(np.max(np.abs(fF[nm][reg])) > 0) if fF[nm][reg].size else False
            if not (d <= TOL):
                diff = np.abs(fF[nm][reg] - un[reg])
                w = [int(x) for x in np.unravel_index(int(np.argmax(diff)), diff.shape)]
                for ax_ in planes:
                    w[1 + ax_] += n + 2
                viol.append({"monitor": "unfolded_fields_differ_from_full_run", "step": n, "field": nm, "metric": "rel_diff", "value": d, "tolerance": TOL, "worst_cell": w})
        if viol:
            break
    if not viol and spec["detectors"]:
        unf = fdtdx.unfold_detector_states(sR[1], R.objects, R.config)
        DF, DR = dr.detectors_np(sF), dr.detectors_np((sR[0], unf))
        for d_ in spec["detectors"]:
            k = f"{d_['name']}/fields"
            a_, b_ = DF[k], DR[k]
            if a_.shape != b_.shape:
                viol.append({"monitor": "unfolded_record_shape", "detector": d_["name"], "full": list(a_.shape), "unfolded": list(b_.shape)})
                continue
            scale = float(np.max(np.abs(a_))) or None
            worst = 0.0
            for n in range(1, T + 1):  # record index n-1 = after step n; valid cells: full index >= n + 2 along every symmetry axis
                idx = [slice(None)] * 4
                for ax_ in planes:
                    cut = max(0, n + 2 - d_["box"][ax_][0])
                    if ax_ in (0, 1):
                        # co-located samples sit *on* an x/y electric plane: the outermost mirrored sample has its
                        # partner outside the kept region and is documented to be filled by repeating its neighbour
                        cut = max(cut, 1)
                    idx[1 + ax_] = slice(cut, None)
                ra, rb = a_[n - 1][tuple(idx)], b_[n - 1][tuple(idx)]
                if ra.size:
                    worst = max(worst, dr.rel_diff(ra, rb, scale))
                    stats["record_cells_compared"] = stats.get("record_cells_compared", 0) + int(ra.size)
            resid["records"] = max(resid["records"], worst if np.isfinite(worst) else 1e300)
            if not (worst <= TOL):
                viol.append({"monitor": "unfolded_records_differ_from_full_run", "detector": d_["name"], "metric": "rel_diff", "value": worst, "tolerance": TOL})
    stats["fault_lockstep_replicas"] = 2
    stats["probe_two_electric_planes"] = int(len(planes) == 2)
    stats["probe_two_planes_on_x_and_y"] = int(set(planes) == {0, 1})
    stats["probe_axis_" + "xyz"[a]] = 1
    stats["probe_nonuniform"] = int(spec["grid"]["kind"] == "rect")
    stats["probe_discarded_half_ends_differently"] = int(spec["faces"][f"min_{'xyz'[a]}"]["kind"] != spec["faces"][f"max_{'xyz'[a]}"]["kind"])
    sig = specgen.signature(a, specgen.face_kinds(spec["faces"]), spec["grid"]["kind"], rm.get("eps_tier"), rm.get("mu_tier"), len(spec["detectors"]))
    digest = dr.digest_arrays(dr.fields_np(sF)) + ":" + ",".join(f"{k}={dr.sig3(v)}" for k, v in sorted(resid.items())) + f":v{len(viol)}"
    return {"violations": viol, "stats": stats, "residuals": resid, "nontrivial": nontrivial, "signature": sig, "digest": digest}
