"""C10 — fields are linear in the source amplitude factors and in the initial state.

Replica family of one scene (fixed materials, boundaries, detectors):
  basis_i   source i alone at static_amplitude_factor 1, zero initial field      (i = 1..n)
  basis_0   no source, random initial field F0                                   (if the run has one)
  combo     all sources with factors a_i, initial field b*F0
  scaled    all factors multiplied by c, initial field c*b*F0
All are stepped in lockstep; after every step
  combo  = sum_i a_i basis_i + b basis_0   for E, H, PML auxiliaries and the linear detector records
           (field, phasor; with and without co-location),
  scaled = c * combo for those, and scaled = c^2 * combo for energy and Poynting records.
The combo replica is also pushed through the library's own loop and must end in the stepped state.
"""
from __future__ import annotations

import copy

import numpy as np

from fdsim import replica as rp
from fdsim import specgen

PROPERTY = "C10"
LEVEL = "exploration"
RUNS = {"quick": 12, "thorough": 300}
TOL = 1e-10
LINEAR = ("field", "phasor")
RULE = (
    "seeded random scenes 4-7 cells per axis, per-face boundaries from periodic pairs / PML 2-3 / PEC / PMC / none, uniform or non-uniform "
    "edges, per-cell random material tensors (iso / diagonal / full, optional conductivities), Lorentz/Drude boxes in 40% of the scenes, 1-3 sources (electric / magnetic dipoles incl. "
    "tilted, at most two uniform/Gaussian plane sources, switches, cw/pulse), 1-3 detectors of all four kinds, random initial field in 60% of "
    "runs, factors a_i, b in +-[0.3,3], common factor c in +-[0.5,2.5]; per scene n+3 replicas. non-trivial = combo fields non-zero at the end; "
    "distinct = boundary tuple x grid kind x material tiers x source/detector kinds x initial-field flag x loop kind"
)
REAL = ["place_objects", "apply_params", "Source.update_E/update_H (static_amplitude_factor)", "forward", "run_fdtd", "custom_fdtd_forward", "all detector classes"]
STUB = ["per-cell material arrays are written into the placed ArrayContainer", "tqdm disabled"]
ASSUMPTIONS = [
    "float64; criterion 1e-10 relative to max(|combo|, sum_i |a_i| max|basis_i| + |b| max|basis_0|) per array (guards against cancellation); arrays below 1e-3 of the field maximum are judged on that absolute scale",
    "plane sources sit on exactly isotropic planes",
    "quadratic records are compared only between runs that differ by one common factor, as the statement says",
]
TECHNIQUE = "deterministic simulation: basis / combination / common-factor replicas stepped in lockstep by the driver, the combination also through the real loop with a seeded cut"
LEVEL_TEXT = "Seeded search over scenes and factor sets; superposition is checked after every step. Evidence, not proof."
LEVEL_NOTE = "float64, XLA CPU single thread; the oracle is the same code with other amplitudes (a defect that is itself linear is invisible)"


def _factor(rng, lo, hi):
    return float(rng.uniform(lo, hi) * (1 if rng.uniform() < 0.7 else -1))


def generate(rng, tier, index):
    spec = rp.rand_scene(rng, T=(5, 10), shape=(4, 7), pml=(2, 3), bloch_p=0.0, p_nonuniform=0.4, n_sources=(1, 3), max_plane=2)
    T = spec["steps"]
    spec["factors"] = [_factor(rng, 0.3, 3.0) for _ in spec["sources"]]
    spec["init_seed"] = int(rng.integers(0, 2**31)) if rng.uniform() < 0.6 else None
    spec["init_factor"] = _factor(rng, 0.3, 3.0)
    spec["common_factor"] = _factor(rng, 0.5, 2.5)
    spec["loop"] = {"cut": int(rng.integers(1, T)) if rng.uniform() < 0.7 else None}
    # dispersive cells (Lorentz / Drude poles, per-axis ones only when no plane source needs an isotropic plane): the
    # polarisation state joins the superposition and plane sources take their dispersive impedance-filter branch
    rp.add_dispersive_boxes(rng, spec, 0.4, per_axis=not rp.plane_source_planes(spec["sources"]))
    return spec


def shrink(spec):
    return rp.shrinks(spec, min_sources=1)


def _variant(spec, keep, factors):
    s = copy.deepcopy(spec)
    s["sources"] = []
    for i, f in zip(keep, factors):
        src = copy.deepcopy(spec["sources"][i])
        src["factor"] = float(f)
        s["sources"].append(src)
    return s


def _lin(terms):
    """sum of coeff*dict over a list of (coeff, dict) plus the cancellation-safe scale per key."""
    keys = terms[0][1].keys()
    val = {k: sum(c * d[k] for c, d in terms) for k in keys}
    scale = {k: sum(abs(c) * (float(np.max(np.abs(d[k]))) if d[k].size else 0.0) for c, d in terms) for k in keys}
    return val, scale


def _cmp(mon, monitor, t, want, scale, got, floors=None, **extra):
    from fdsim import driver as dr

    worst, wk = 0.0, ""
    for k in sorted(set(want) | set(got)):
        if k not in want or k not in got:
            worst, wk = float("inf"), k
            break
        fl = floors.get(k, 0.0) if isinstance(floors, dict) else (floors or 0.0)
        s = max(scale.get(k, 0.0), float(np.max(np.abs(got[k]))) if got[k].size else 0.0, fl)
        r = dr.rel_diff(want[k], got[k], s if s > 0 else None)
        if r > worst:
            worst, wk = r, k
    mon.check(monitor, t, worst, TOL, key=wk, **extra)


def execute(spec):
    rp.setup()
    from fdsim import driver as dr

    n = len(spec["sources"])
    a = [float(x) for x in spec["factors"]]
    b = float(spec["init_factor"])
    c = float(spec["common_factor"])
    has_init = spec.get("init_seed") is not None
    ra = rp.base_arrays(spec)
    fam = [("basis", _variant(spec, [i], [1.0])) for i in range(n)]
    if has_init:
        fam.append(("init", _variant(spec, [], [])))
    fam.append(("combo", _variant(spec, range(n), a)))
    fam.append(("scaled", _variant(spec, range(n), [c * x for x in a])))
    try:
        scenes = [rp.build(s, ra) for _, s in fam]
    except (ValueError, NotImplementedError) as e:
        return rp.rejected(e)
    T = scenes[0].T
    mon = rp.Monitors()
    stats = {"sim_steps": 0, "sim_time_fs": 0.0, **rp.common_probes(spec), "replicas": len(fam)}
    stats["probe_dispersive"] = int(bool(spec["materials"].get("disp_objects")))
    stats["probe_dispersive_with_plane_source"] = int(bool(spec["materials"].get("disp_objects")) and bool(rp.plane_source_planes(spec["sources"])))
    stats["probe_negative_factor"] = int(any(x < 0 for x in a) or c < 0)

    arrays = [s.arrays for s in scenes]
    steppers = [dr.Stepper(s) for s in scenes]
    if has_init:
        # amplitude of b*F0 = what the weighted sources build up by the last step (scouting pass of the combo scene)
        E0, H0, sc_, ns = rp.balanced_init(scenes[-2], steppers[-2], spec["init_seed"])
        rp.count_steps(stats, ns, scenes[0].dt)
        E0, H0 = E0 / abs(b), H0 / abs(b)
        stats["init_scale"] = sc_
        arrays[n] = rp.set_fields(scenes[n], E0, H0)
        arrays[-2] = rp.set_fields(scenes[-2], b * E0, b * H0)
        arrays[-1] = rp.set_fields(scenes[-1], c * b * E0, c * b * H0)
    coeff = a + ([b] if has_init else [])
    # the same common-factor run obtained by a *functional update of the placed sources* (static_amplitude_factor changed
    # after placement, as an optimisation loop or a parameter sweep does) instead of a new placement
    objs_upd = scenes[-2].objects
    for i, src in enumerate(spec["sources"]):
        objs_upd = objs_upd.aset(f"object_list->[{objs_upd.index(src['name'])}]->static_amplitude_factor", float(c * a[i]))
    st_upd = dr.Stepper(scenes[-2], objects=objs_upd)
    state_upd = st_upd.state0(arrays[-1])
    states = [st.state0(x) for st, x in zip(steppers, arrays)]
    kind = {d["name"]: d["kind"] for d in spec["detectors"]}
    fc, g_run = None, 0.0
    for t in range(T):
        states = [st.fwd(s) for st, s in zip(steppers, states)]
        rp.count_steps(stats, len(fam), scenes[0].dt)
        fs = [dr.fields_np(s) for s in states]
        rs = [dr.detectors_np(s) for s in states]
        fc, fsc = fs[-2], fs[-1]
        state_upd = st_upd.fwd(state_upd)
        rp.count_steps(stats, 1, scenes[0].dt)
        _cmp(mon, "factor_updated_after_placement", t, fsc, {}, dr.fields_np(state_upd), rp.FLOOR * max(rp.field_scale(fsc), 1e-300))
        # field scale of the combination (terms included, so that cancelling terms do not shrink it)
        g = max(rp.field_scale(fc), sum(abs(x) * rp.field_scale(f) for x, f in zip(coeff, fs)))
        g_run = max(g_run, g)
        want, scale = _lin(list(zip(coeff, fs[: len(coeff)])))
        _cmp(mon, "fields_superposition", t, want, scale, fc, rp.FLOOR * g)
        lin = [{k: v for k, v in r.items() if kind[k.split("/")[0]] in LINEAR} for r in rs]
        quad = [{k: v for k, v in r.items() if kind[k.split("/")[0]] not in LINEAR} for r in rs]
        fl = rp.record_floors(spec, g_run, rs[-2])
        if lin[0]:
            want, scale = _lin(list(zip(coeff, lin[: len(coeff)])))
            _cmp(mon, "linear_records_superposition", t, want, scale, lin[-2], fl)
        _cmp(mon, "fields_common_factor", t, {k: c * v for k, v in fc.items()}, {}, fsc, rp.FLOOR * g * abs(c))
        if lin[0]:
            _cmp(mon, "linear_records_common_factor", t, {k: c * v for k, v in lin[-2].items()}, {}, lin[-1], {k: v * abs(c) for k, v in fl.items()})
        if quad[0]:
            _cmp(mon, "quadratic_records_common_factor", t, {k: c * c * v for k, v in quad[-2].items()}, {}, quad[-1], {k: v * c * c for k, v in fl.items()})
    nontrivial = bool(np.max(np.abs(fc["E"])) > 0 or np.max(np.abs(fc["H"])) > 0)
    stats["probe_quadratic_nonzero"] = int(any(np.any(v != 0) for v in quad[-2].values())) if quad[0] else 0
    stats["probe_linear_nonzero"] = int(any(np.any(v != 0) for v in lin[-2].values())) if lin[0] else 0

    lp = spec.get("loop") or {}
    fired = rp.loop_check(mon, stats, scenes[-2], arrays[-2], states[-2], lp, not has_init, TOL, "combo")
    sig = specgen.scene_signature(spec, has_init, sorted(fired), n)
    return rp.finish(mon, stats, nontrivial, sig, fc)
