"""C27 — placement does not depend on the order of the object list or of the constraint list.

Same generator and driver as C26 (`placement_common`).  Oracle: under every explored pair of
(object permutation, constraint permutation) the solver must agree on success / failure
(monitor `order_dependent_success`; an exception that escapes `resolve_object_constraints` under one
order only counts as a differing outcome) and, when it succeeds, on every resolved grid slice
(monitor `order_dependent_slices`).  Failure under every order is a legitimate outcome.
"""
from __future__ import annotations

from checks import placement_common as pc
from fdsim import specgen

PROPERTY = "C27"
LEVEL = "exploration"
RUNS = {"quick": 600, "thorough": 8000}
SHRINK_BUDGET = {"quick": 250, "thorough": 1200}
RUN_TIMEOUT_S = 300
RULE = (
    "same generator as C26 (seeded constraint systems emitted from a hidden ground truth; uniform and explicit non-uniform grids; consistent, under- and "
    "over-constrained variants; families well_posed / general kept apart, label computed structurally; 40% of the general systems embed the motif "
    "'free A, B placed against A, C sized from B'). Schedule per system: all permutations of a list with <= 4 elements, otherwise identity, full reversal and seeded "
    "permutations up to K=8 (quick) / 40 (thorough), for the object list and the constraint list, paired round-robin. non-trivial = at least two distinct orders "
    "executed; distinct = family x grid kind x variant x constraint mechanisms used x object count class x outcome class (all succeed / all fail / mixed)")
REAL = ["resolve_object_constraints", "_apply_constraints_iteratively", "_extend_to_inf_if_possible", "_update_grid_slices_from_shapes / _update_grid_shapes_from_slices",
        "SimulationObject constraint helpers", "RectilinearGrid snapping helpers"]
STUB = ["no arrays are allocated (resolve_object_constraints only, no place_objects)"]
ASSUMPTIONS = [
    "success = the returned error map has no message and no exception escaped; the text of error messages is not compared",
    "slices are compared only between orders that both succeed",
]
TECHNIQUE = "deterministic simulation of the setup phase: one constraint system replayed under seeded permutations of the object and constraint lists, outcomes compared"
LEVEL_TEXT = (
    "Seeded search over constraint systems x list orders (complete for lists of <= 4 elements, sampled above). "
    "A clean batch is evidence of order independence on the explored systems, not a proof."
)
LEVEL_NOTE = "single actor, no time loop: the only schedule dimension is list order; error message texts are ignored"

KNOWN_PREDICATES = dict(pc.KNOWN_C27)


def generate(rng, tier, index):
    return pc.generate_system(rng, tier, index)


def shrink(spec):
    return pc.shrink(spec)


def execute(spec):
    r = pc.execute_common(spec)
    stats = r["stats"]
    if r["rejected"]:
        return {"rejected": True, "nontrivial": False, "stats": stats, "digest": "rejected:" + r["digest"], "signature": ""}
    viol = r["c27"]
    for v in viol:
        stats["violations_" + v["monitor"]] = stats.get("violations_" + v["monitor"], 0) + 1
    if viol:
        stats[r["family"] + "_systems_with_violation"] = 1
    return {
        "violations": viol,
        "stats": stats,
        "residuals": {},
        "nontrivial": len(spec["orders"]) >= 2,
        "signature": specgen.signature("C27", *r["signature_parts"]),
        "digest": r["digest"] + f":v{len(viol)}",
    }
