#!/bin/bash
# Re-enact the acceptance probe: per check remove its evidence file, run the manifest's quick command with VERIF_SEED exported.
# Usage: probe_like.sh [seed] [PROP ...]
SEED=${1:-1}; shift
cd /verif; mkdir -p .logs
PROPS=${@:-$(/venv/bin/python -c "import json;print(' '.join(x['property_id'] for x in json.load(open('MANIFEST.json'))['checks']))")}
export CARGO_NET_OFFLINE=true GOPROXY=off PIP_NO_INDEX=1 VERIF_SEED=$SEED VERIF_TIER=quick
for c in $PROPS; do
  rm -f evidence/$c.json
  cmd=$(/venv/bin/python -c "import json,sys;print([x['quick_cmd'] for x in json.load(open('MANIFEST.json'))['checks'] if x['property_id']==sys.argv[1]][0])" $c)
  t0=$(date +%s)
  timeout 3000 bash -c "$cmd" > .logs/$c.probe.log 2>&1
  rc=$?
  echo "$c seed=$SEED rc=$rc wall=$(( $(date +%s) - t0 ))s known=$(grep -c '^KNOWN-FINDING' .logs/$c.probe.log) viol=$(grep -c 'VIOLATION' .logs/$c.probe.log) harness=$(grep -c '^HARNESS-ERROR' .logs/$c.probe.log) evidence=$([ -s evidence/$c.json ] && echo yes || echo NO)" | tee -a .logs/probe_summary.txt
done
