#!/bin/bash
# Usage: confirm_seeded.sh <source dir with patch.diff demo.py meta.json> <seeded id>
# Copies the artefacts to /verif/seeded/<id>/ and confirms: patch applies to /repo HEAD, demo exits 0 on the
# clean tree and non-zero on the patched tree (both in scratch worktrees outside /repo and /verif).
set -u
SRC=$1; ID=$2
DST=/verif/seeded/$ID; mkdir -p $DST
cp $SRC/patch.diff $SRC/demo.py $DST/ 2>/dev/null; cp $SRC/meta.json $DST/meta.agent.json 2>/dev/null
WT=$(mktemp -d /tmp/confirm_wt_XXXX); rmdir $WT
git -C /repo worktree add -q --detach $WT HEAD || exit 3
cd $WT
FDTDX_SRC=$WT/src PYTHONPATH=$WT/src timeout 600 /venv/bin/python $DST/demo.py > $DST/.demo_clean.log 2>&1; c=$?
git apply $DST/patch.diff || { echo "PATCH DOES NOT APPLY"; git -C /repo worktree remove --force $WT; exit 3; }
FDTDX_SRC=$WT/src PYTHONPATH=$WT/src timeout 600 /venv/bin/python $DST/demo.py > $DST/.demo_mut.log 2>&1; m=$?
echo "CONFIRM $ID: demo clean exit=$c mutated exit=$m  (last mutated line: $(tail -1 $DST/.demo_mut.log | cut -c1-160))"
git -C /repo worktree remove --force $WT
rm -f $DST/.demo_clean.log $DST/.demo_mut.log
[ $c -eq 0 ] && [ $m -ne 0 ]
