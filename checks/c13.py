"""C13 — plane sources radiate only in their stated direction.

Quiescence-type check on the solver clock: a transversely periodic homogeneous medium, PML along the
propagation axis, one plane source; Poynting planes in front of and behind the source record every
step through the real loop.  Backward / forward power (time-integrated for pulses, steady-state
average for CW) must stay below 1e-3 (uniform plane wave) or 0.1 (Gaussian beam, radius >= 0.3 lambda).
"""
from __future__ import annotations

import numpy as np

from fdsim import specgen

PROPERTY = "C13"
LEVEL = "exploration"
RUNS = {"quick": 24, "thorough": 600}
X64 = False  # float32 end to end (with x64 on, float64 PML coefficients would promote the float32 auxiliary fields)
RULE = (
    "all six directions (axis x sign) cycled deterministically over run indices; random transverse polarisation angle, 15-24 cells per "
    "wavelength in a homogeneous medium (eps 1-4; for the uniform source one run in four each on a grid graded along the propagation axis and in a one-pole Lorentz medium), CW or Gaussian-pulse profile, uniform plane source (transverse 3-5 cells periodic) or "
    "Gaussian beam (radius 0.3-0.6 lambda, transverse 1.6-2.2 lambda periodic); PML 8-10 cells on the propagation axis. non-trivial = forward "
    "power > 0; distinct = (axis, direction, source kind, profile kind, polarisation octant, resolution bin)"
)
REAL = ["place_objects", "run_fdtd (checkpointed loop)", "UniformPlaneSource / GaussianPlaneSource (TFSF injection)", "PoyntingFluxDetector", "PML"]
STUB = ["tqdm disabled"]
ASSUMPTIONS = ["float32 fields (x64 on for the host oracle); thresholds are the statement's own (1e-3, 0.1); measured on the unchanged tree: uniform source 3e-7; Gaussian spots of radius 0.3-0.6 wavelengths 0.03-0.18 (known finding C13-tight-gaussian-spot)"]
TECHNIQUE = "deterministic simulation: quiescence/one-way-power invariant evaluated on the per-step flux history of the real loop"
LEVEL_TEXT = "Seeded exploration over direction x polarisation x resolution x profile; statement thresholds used unchanged."
LEVEL_NOTE = "float32; domains <= 40k cells, <= 320 steps; normal incidence only"


def generate(rng, tier, index):
    axis = index % 3
    direction = "+" if (index // 3) % 2 == 0 else "-"
    kind = "uniform_plane" if (index // 6) % 3 != 2 else "gaussian_plane"
    profile_kind = "cw" if (index // 2) % 2 == 0 else "pulse"
    if rng.uniform() < 0.3:
        profile_kind = specgen.choice(rng, ["cw", "pulse"])
    eps = float(rng.uniform(1.0, 4.0))
    cpw_medium = float(rng.uniform(15, 24))
    # variants of the uniform plane source (one run in four each): (g) a grid graded along the propagation axis around the
    # source plane (geometric width ratio 3-15 % per cell, widths within 0.7-1.4 x nominal, >= 15 cells of the *widest* kind per
    # wavelength); (d) a homogeneous *dispersive* medium (one Lorentz pole above the carrier), resolution and run length
    # referred to the permittivity at the carrier frequency
    variant = specgen.choice(rng, ["plain", "plain", "graded", "dispersive", "magnetic"]) if kind == "uniform_plane" else "plain"
    mu_r = float(rng.uniform(1.3, 3.0))  # (m) a homogeneous magnetic medium; resolution and run length referred to n = sqrt(eps mu)
    grade = float(rng.uniform(1.03, 1.15)) ** (1 if rng.uniform() < 0.5 else -1)
    # resonance at >= 2 x carrier and damped: measured <= 2e-5 on the unchanged tree. (A pulse whose spectrum reaches a resonance at
    # 1.6-1.7 x carrier sends 2-5e-4 backward, and an undamped pole keeps ringing at its own coarsely resolved resonance after
    # the CW turn-on, 3.4e-4 - both too close to the 1e-3 bound to be used.)
    lor = {"w0_over_wc": float(rng.uniform(2.0, 3.0)), "gamma_over_w0": float(rng.uniform(0.005, 0.02)), "deps": float(rng.uniform(1.5, 5.0))}
    eps_inf = eps
    if variant == "graded":
        cpw_medium = float(rng.uniform(21, 28))
    if variant == "dispersive":
        eps_inf = float(1.0 + (eps - 1.0) / 3.0)  # eps_inf 1-2 with a strong pole: the carrier sees 2-4 x eps_inf
        x = lor["w0_over_wc"]
        chi = lor["deps"] * x * x / (x * x - 1.0 - 1j * lor["gamma_over_w0"] * x)
        eps = float(np.real(eps_inf + chi))  # permittivity seen by the carrier
    if variant == "magnetic":
        eps = eps * mu_r  # from here on `eps` only stands for n^2 (wavelength, period, run length); the medium keeps eps_inf
    lam0 = cpw_medium * np.sqrt(eps) * specgen.SPACING
    pml = int(rng.integers(8, 11))
    interior = int(2.2 * cpw_medium) + 8
    shape = [0, 0, 0]
    t1, t2 = (axis + 1) % 3, (axis + 2) % 3
    if kind == "uniform_plane":
        shape[t1], shape[t2] = int(rng.integers(3, 6)), int(rng.integers(3, 6))
    else:
        n = int(rng.uniform(1.6, 2.2) * cpw_medium)
        shape[t1] = shape[t2] = n
    shape[axis] = interior + 2 * pml
    faces = {}
    for a, ax in enumerate("xyz"):
        k = {"kind": "pml", "thickness": pml} if a == axis else {"kind": "periodic"}
        faces[f"min_{ax}"], faces[f"max_{ax}"] = dict(k), dict(k)
    pos = shape[axis] // 2
    box = [[0, shape[a]] for a in range(3)]
    box[axis] = [pos, pos + 1]
    ang = float(rng.uniform(0, 2 * np.pi))
    pol = [0.0, 0.0, 0.0]
    pol[t1], pol[t2] = float(np.cos(ang)), float(np.sin(ang))
    period_steps = cpw_medium * np.sqrt(eps) / (0.99 / np.sqrt(3))
    src = {"kind": kind, "name": "src", "box": box, "direction": direction, "wavelength": lam0, "e_pol": pol}
    if kind == "uniform_plane" and rng.uniform() < 0.25:
        # polarization given through the magnetic vector only, and not normalised (any non-zero transverse vector is valid input)
        src.pop("e_pol")
        src["h_pol"] = [float(x * rng.uniform(0.3, 3.0)) for x in pol]
    if kind == "gaussian_plane":
        src["radius"] = float(rng.uniform(0.3, 0.6)) * cpw_medium * specgen.SPACING
    else:
        src["amplitude"] = float(rng.uniform(0.5, 2.0))
    if profile_kind == "cw":
        src["profile"] = {"kind": "cw"}
        T = int(8.5 * period_steps)
    else:
        src["profile"] = {"kind": "pulse", "center_wavelength": lam0, "width_wavelength": lam0 * float(rng.uniform(3.0, 5.0))}
        sig_t = (src["profile"]["width_wavelength"] / lam0) * period_steps / (2 * np.pi)
        T = int(12 * sig_t + 2.5 * interior * np.sqrt(eps) / (0.99 / np.sqrt(3)) * 0.5)
    off = int(rng.integers(4, 8))
    dets = []
    for nm, p in (("front", pos + (off if direction == "+" else -off)), ("behind", pos - (off if direction == "+" else -off))):
        b = [[0, shape[a]] for a in range(3)]
        b[axis] = [p, p + 1]
        dets.append({"kind": "poynting", "name": nm, "box": b, "direction": "+", "reduce": True, "exact": True, "fixed_propagation_axis": axis})
    grid = {"kind": "uniform", "spacing": specgen.SPACING}
    background = {"permittivity": eps_inf}
    if variant == "magnetic":
        background["permeability"] = mu_r
    if variant == "graded":
        edges = []
        for a in range(3):
            w = np.full(shape[a], specgen.SPACING)
            if a == axis:
                w = specgen.SPACING * np.clip(grade ** (np.arange(shape[a]) - pos), 0.7, 1.4)
            e = np.concatenate([[0.0], np.cumsum(w)])
            edges.append([float(x) for x in (e - e[-1] / 2)])
        grid = {"kind": "rect", "edges": edges}
        T = int(T / 0.7) + 1  # the time step follows the smallest cell
        period_steps = period_steps / 0.7
    if variant == "dispersive":
        wc = 2 * np.pi * 299792458.0 / lam0
        background["dispersion"] = {"poles": [{"kind": "lorentz", "w0": lor["w0_over_wc"] * wc, "gamma": lor["gamma_over_w0"] * lor["w0_over_wc"] * wc, "deps": lor["deps"]}]}
    return {
        "shape": shape, "grid": grid, "steps": T, "faces": faces, "dtype": "float32", "key": 0,
        "materials": {"mode": "objects", "objects": [], "background": background}, "sources": [src], "detectors": dets,
        "period_steps": float(period_steps), "axis": axis, "variant": variant, "eps_carrier": eps,
    }


def _tight_gaussian_leak(spec, violation):
    """Known finding: a tightly focused Gaussian spot (radius 0.3-0.65 medium wavelengths) leaks 10-25 % backward.

    Anything else - a uniform plane source above 1e-3, a Gaussian beam sending >= 25 % backward (a wrong face sign or time
    offset sends ~100 %), a wider beam, missing forward power - stays a VIOLATION.
    """
    src = spec["sources"][0]
    if violation.get("monitor") != "backward_radiation" or src["kind"] != "gaussian_plane":
        return False
    eps = spec.get("eps_carrier", spec["materials"].get("background", {}).get("permittivity", 1.0))
    r_rel = src["radius"] / (src["wavelength"] / np.sqrt(eps))
    return 0.3 <= r_rel <= 0.65 and 0.1 <= violation["value"] < 0.25 and violation["forward"] > 0 and violation["backward"] < 0


KNOWN_PREDICATES = {"tight_gaussian_spot_leaks_backward": _tight_gaussian_leak}


def shrink(spec):
    return []  # the scene is already a minimal canonical setup; nothing meaningful to drop


def execute(spec):
    import fdtdx
    from fdsim import scene as sc, driver as dr

    scn = sc.build_scene(spec)
    t, arr = fdtdx.run_fdtd(scn.arrays, scn.objects, scn.config, scn.key, show_progress=False)
    D = dr.detectors_np((t, arr))
    sgn = 1.0 if spec["sources"][0]["direction"] == "+" else -1.0
    f = sgn * D["front/poynting_flux"][:, 0].astype(np.float64)
    b = sgn * D["behind/poynting_flux"][:, 0].astype(np.float64)
    T = scn.T
    if spec["sources"][0]["profile"]["kind"] == "cw":
        n = int(round(3 * (spec["sources"][0]["wavelength"] / 299792458.0) / scn.dt))  # three carrier periods at the run's own dt
        n = max(1, min(n, T // 2))
        Pf, Pb = float(np.mean(f[T - n :])), float(np.mean(b[T - n :]))
    else:
        Pf, Pb = float(np.sum(f)), float(np.sum(b))
    viol, stats, resid = [], {"sim_steps": T, "sim_time_fs": T * scn.dt * 1e15}, {}
    kind = spec["sources"][0]["kind"]
    bound = 1e-3 if kind == "uniform_plane" else 0.1
    ratio = abs(Pb) / abs(Pf) if Pf != 0 else float("inf")
    resid["back_over_forward_" + kind] = ratio
    # the backward plane must see power flowing *backward* of at most bound*forward; forward must be positive
    if not (Pf > 0):
        viol.append({"monitor": "no_forward_power", "forward": Pf, "backward": Pb})
    elif not (ratio < bound):
        viol.append({"monitor": "backward_radiation", "source": kind, "metric": "P_back/P_fwd", "value": ratio, "tolerance": bound, "forward": Pf, "backward": Pb})
    tail = float(np.max(np.abs(f[-3:]))) / (float(np.max(np.abs(f))) or 1.0)
    stats["probe_pulse_left_domain"] = int(spec["sources"][0]["profile"]["kind"] == "pulse" and tail < 1e-3)
    stats["probe_" + kind] = 1
    stats["probe_h_specified_polarization"] = int("h_pol" in spec["sources"][0])
    stats["probe_variant_" + spec.get("variant", "plain")] = 1
    resid["back_over_forward_" + kind + "_" + spec.get("variant", "plain")] = ratio
    stats["probe_" + spec["sources"][0]["profile"]["kind"]] = 1
    ang = np.arctan2(*[(spec["sources"][0].get("e_pol") or spec["sources"][0]["h_pol"])[(spec["axis"] + k) % 3] for k in (2, 1)])
    sig = specgen.signature(spec["axis"], spec["sources"][0]["direction"], kind, spec["sources"][0]["profile"]["kind"], int((ang % (2 * np.pi)) // (np.pi / 4)), int(spec["period_steps"] // 8))
    digest = f"{dr.sig3(Pf)}:{dr.sig3(ratio)}:v{len(viol)}"
    return {"violations": viol, "stats": stats, "residuals": resid, "nontrivial": bool(Pf > 0), "signature": sig, "digest": digest}
