"""Child process for C42: build + run one scene on N emulated host devices, dump results as .npz."""
import json
import os
import sys

ROOT = os.path.dirname(os.path.dirname(os.path.abspath(__file__)))
sys.path.insert(0, ROOT)


def main():
    spec_path, ndev, out = sys.argv[1], int(sys.argv[2]), sys.argv[3]
    from fdsim import env

    env.bootstrap(x64=True, devices=ndev, threads=1)
    import fdtdx
    import jax
    import numpy as np
    from fdsim import driver as dr, scene as sc

    assert len(jax.devices()) == ndev, (len(jax.devices()), ndev)
    spec = json.load(open(spec_path))
    scn = sc.build_scene(spec)
    shard_info = str(getattr(scn.arrays.fields.E, "sharding", None))
    nshards = len(scn.arrays.fields.E.addressable_shards)
    t, arr = fdtdx.run_fdtd(scn.arrays, scn.objects, scn.config, scn.key, show_progress=False)
    full = dr.full_np((t, arr))
    full["meta/t"] = np.asarray(int(t))
    full["meta/nshards"] = np.asarray(nshards)
    full["meta/out_nshards"] = np.asarray(len(arr.fields.E.addressable_shards))
    np.savez(out, **{k.replace("/", "__"): v for k, v in full.items()})
    print("CHILD-OK", ndev, nshards, shard_info[:80])


if __name__ == "__main__":
    main()
