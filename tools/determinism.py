#!/usr/bin/env python
"""Wider determinism self-test: k run indices of a property executed under several (workers, PYTHONHASHSEED)
combinations in fresh interpreters; all digests must agree. Writes selftest/determinism.json (merged per property)."""
import json
import os
import subprocess
import sys

ROOT = os.path.dirname(os.path.dirname(os.path.abspath(__file__)))
sys.path.insert(0, ROOT)
from fdsim import engine  # noqa: E402


def run(prop, specs, hashseed):
    env = dict(os.environ, PYTHONHASHSEED=str(hashseed))
    p = subprocess.run([sys.executable, os.path.join(ROOT, "run_check.py"), prop, "--exec-specs", "-"], input=json.dumps(specs), capture_output=True, text=True, env=env, cwd=ROOT)
    for line in p.stdout.splitlines()[::-1]:
        if line.startswith("RESULTS "):
            return [r.get("digest", "ERR:" + r.get("harness_error", "")[:60]) for r in json.loads(line[8:])]
    return ["NO-OUTPUT"] * len(specs)


def main():
    props = sys.argv[1:] or ["C06"]
    k = int(os.environ.get("K", "4"))
    path = os.path.join(ROOT, "selftest", "determinism.json")
    out = json.load(open(path)) if os.path.exists(path) else {}
    bad = 0
    for prop in props:
        mod = engine.load_check(prop)
        specs = [engine.jsonable(mod.generate(engine.rng_for(0, prop, i), "quick", i)) for i in range(k)]
        ref = run(prop, specs, 0)
        rows = {"hash0": ref}
        for hs in (1, 977):
            rows[f"hash{hs}"] = run(prop, specs, hs)
        # pool execution with 4 workers
        pool = engine.Pool(4, getattr(mod, "THREADS", 1), bool(getattr(mod, "X64", True)))
        res = pool.map_runs(prop, list(enumerate(specs)), 1800)
        pool.close()
        rows["pool4"] = [r.get("digest", "ERR") for r in res]
        same = all(v == ref for v in rows.values())
        out[prop] = {"runs": k, "configurations": list(rows), "identical": same, "digests": ref}
        print(prop, "identical" if same else "DIVERGED", flush=True)
        bad += 0 if same else 1
        if not same:
            print(json.dumps(rows, indent=1))
    os.makedirs(os.path.dirname(path), exist_ok=True)
    json.dump(out, open(path, "w"), indent=1)
    return 1 if bad else 0


if __name__ == "__main__":
    sys.exit(main())
