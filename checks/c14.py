"""C14 — on/off schedules decide exactly when sources inject and detectors record.

(a) timers: the documented window rule re-stated in plain Python vs the library's on-list / index map,
    complete over a parameter grid for T <= 24 plus seeded random schedules;
(b) sources: at every simulated step the driver forks the state and takes the same real step with the
    sources removed (counterfactual); the difference must vanish at inactive steps;
(c) detectors: raw field detectors with random schedules must hold exactly one record per active
    step, in order, equal to the driver's trajectory, and nothing else - also across crash/restore.
"""
from __future__ import annotations

import itertools
import math

import numpy as np

from fdsim import specgen

PROPERTY = "C14"
LEVEL = "fault_enumeration"
EXHAUSTIVE_INNER = True
RUNS = {"quick": 28, "thorough": 500}
RULE = (
    "run 0..3: exhaustive grid of schedule parameters (start/end as absolute time or periods, durations, interval, fixed lists, "
    "always-off) x T in {1..24 subset}; over-specified combinations must be rejected by the library and by the oracle alike. other runs: "
    "seeded scenes (all boundary kinds incl. PML, 1-3 sources of every constructible kind, 1-4 raw field detectors, random schedules incl. "
    "never-active ones) stepped by the driver with a source-free fork at every step and crash/restore points. non-trivial = at least one "
    "inactive step with non-zero fields or one recorded detector step; distinct = scene signature x schedule kinds"
)
REAL = ["OnOffSwitch.calculate_on_list / calculate_time_step_to_on_arr_idx", "place_objects", "forward (sources, detectors)", "ObjectContainer.replace_sources"]
STUB = ["durable storage = host numpy copy"]
ASSUMPTIONS = [
    "schedule times are half-integer multiples of dt (knife edges start <= t*dt <= end avoided)",
    "inactive-step injection tolerance 1e-12 of the trajectory max (two separately compiled step programs may differ in the last bit)",
    "'active => non-zero injection' is not asserted (a ramped profile injects exactly 0 at its first active step)",
]
TECHNIQUE = "deterministic simulation: per-step counterfactual fork (sources removed) and record-history check on the driver-owned clock; exhaustive small schedule grid"
LEVEL_TEXT = "Inner schedule grid enumerated completely against an independent rule; seeded scenes check every step of every run for injection at inactive steps and for exactly-once, ordered detector records."
LEVEL_NOTE = "float64 CPU; T <= 24; the rule oracle mirrors the documented window semantics (unspecified start=0, end=inf, duration fills the missing bound)"


# ------------------------------------------------------------------ rule oracle (pure python, units of dt)


def rule_on_list(sw: dict, T: int, dt: float = 1.0):
    """Return list[bool] or the string 'invalid' for over-/under-specified schedules."""
    if sw.get("is_always_off"):
        return [False] * T
    if sw.get("fixed_on_time_steps") is not None:
        s = set(sw["fixed_on_time_steps"])
        return [t in s for t in range(T)]
    period = sw.get("period")
    uses_p = any(sw.get(k) is not None for k in ("start_after_periods", "end_after_periods", "on_for_periods"))
    if uses_p and period is None:
        return "invalid"
    starts = [sw.get("start_time"), None if sw.get("start_after_periods") is None else sw["start_after_periods"] * period]
    ends = [sw.get("end_time"), None if sw.get("end_after_periods") is None else sw["end_after_periods"] * period]
    durs = [sw.get("on_for_time"), None if sw.get("on_for_periods") is None else sw["on_for_periods"] * period]
    starts = [x for x in starts if x is not None]
    ends = [x for x in ends if x is not None]
    durs = [x for x in durs if x is not None]
    if len(starts) > 1 or len(ends) > 1:
        return "invalid"
    if len(durs) > 1:
        # two durations: the library treats each as an extra start/end specification
        return "invalid"
    if durs and starts and ends:
        return "invalid"
    dur = durs[0] if durs else None
    if starts:
        start = starts[0]
        end = ends[0] if ends else (start + dur if dur is not None else math.inf)
    elif ends:
        end = ends[0]
        start = end - dur if dur is not None else 0.0
    else:
        start = 0.0
        end = dur if dur is not None else math.inf
    iv = int(sw.get("interval", 1))
    return [(start <= t * dt <= end) and (t % iv == 0) for t in range(T)]


def _grid_switches():
    vals_t = [None, 1.5, 6.5]
    vals_e = [None, 3.5, 9.5]
    vals_d = [None, 2.0]
    out = []
    for st, sp, et, ep, dtm, dp, iv in itertools.product(vals_t, [None, 0.75], vals_e, [None, 2.25], vals_d, [None, 1.25], [1, 3]):
        sw = {"interval": iv}
        if st is not None:
            sw["start_time"] = st
        if sp is not None:
            sw["start_after_periods"] = sp
        if et is not None:
            sw["end_time"] = et
        if ep is not None:
            sw["end_after_periods"] = ep
        if dtm is not None:
            sw["on_for_time"] = dtm
        if dp is not None:
            sw["on_for_periods"] = dp
        if sp is not None or ep is not None or dp is not None:
            sw["period"] = 4.0
        out.append(sw)
    out.append({"is_always_off": True})
    out.append({"start_after_periods": 1.0})  # needs a period -> invalid
    for fixed in ([], [0], [2, 3, 7], [0, 1, 2, 3, 4, 5, 6, 7]):
        out.append({"fixed_on_time_steps": fixed})
    return out


# ------------------------------------------------------------------ generation


def generate(rng, tier, index):
    if index < 4:
        Ts = [[1, 2, 8], [3, 12, 24], [5, 16], [7, 10, 20]][index]
        return {"mode": "grid", "Ts": Ts, "random_seed": int(rng.integers(0, 2**31)), "n_random": 200}
    if index % 12 in (4, 5):
        # the library's own schedule-changing history: its S-parameter driver switches every port source but one off
        # *after* placement (functional update of the switch), calls apply_params and runs
        ax = int(rng.integers(0, 3))
        cross = [int(rng.integers(8, 13)), int(rng.integers(8, 13))]
        length = int(rng.integers(12, 17))
        n_in = int(rng.integers(2, 4))
        pos = sorted(int(x) for x in rng.choice(np.arange(2, length - 2), size=n_in + 1, replace=False))
        ports = []
        for i, p in enumerate(pos):
            size = [int(rng.integers(6, c)) for c in cross]  # >= 6 cells: the mode solver fails on tiny homogeneous ports
            ports.append({"name": f"p{i}", "pos": p + 0.5, "center": [c / 2 for c in cross], "size": size, "direction": specgen.choice(rng, ["+", "-"]), "filter_pol": specgen.choice(rng, ["te", "tm", None])})
        out_i = int(rng.integers(0, len(ports)))
        outputs = [ports.pop(out_i)]
        return {"mode": "sparam_flow", "spacing": specgen.SPACING, "axis": ax, "cross": cross, "length": length, "inputs": ports, "outputs": outputs,
                "active": ports[int(rng.integers(0, len(ports)))]["name"], "wavelength_cells": float(rng.uniform(8, 12)), "eps": float(rng.uniform(1.0, 4.0)),
                "pml": int(rng.integers(3, 6)), "steps": int(rng.integers(50, 90))}
    spec = specgen.rand_scene(
        rng, T=(5, 16), shape=(4, 8), pml=(2, 3), p_nonuniform=0.3, tiers=("iso",), n_sources=(1, 3), n_detectors=(0, 0), sigma_e=False, mu=False,
        source_kinds=("dipole", "dipole", "uniform_plane", "gaussian_plane", "tfsf_region", "mode"),
    )
    spec["mode"] = "scene"
    T = spec["steps"]
    # degenerate-but-valid schedules get a guaranteed share: one scene in five carries a source whose schedule has no active
    # step at all (empty fixed list or always-off flag); it must inject nothing, at any step
    if rng.uniform() < 0.2:
        spec["sources"][int(rng.integers(0, len(spec["sources"])))]["switch"] = specgen.choice(rng, [{"fixed_on_time_steps": []}, {"is_always_off": True}, {"fixed_on_time_steps": []}])
    dets = []
    for i in range(int(rng.integers(1, 5))):
        d = specgen.rand_field_detector(rng, f"d{i}", spec["shape"], T, exact=False, switch=False)
        d["reduce"] = False
        sw = specgen.rand_switch(rng, T, p_default=0.15)  # may be never-active
        if sw:
            d["switch"] = sw
        dets.append(d)
    # detectors of the other kinds (co-located field, energy, Poynting; spatial and reduced): each gets an always-on twin,
    # the switched detector must hold exactly the twin's records of its active steps, in order
    for i in range(int(rng.integers(0, 3))):
        d = specgen.rand_detector(rng, f"k{i}", spec["shape"], T, kinds=("field", "energy", "poynting"), switch=False)
        sw = specgen.rand_switch(rng, T, p_default=0.0)
        if sw:
            d["switch"] = sw
        tw = {k: v for k, v in d.items() if k != "switch"}
        tw["name"] = d["name"] + "_twin"
        d["twin"] = tw["name"]
        dets += [d, tw]
    # accumulating detectors (phasor family, incl. the near-to-far-field projection detector in box mode): with unit stride
    # and pulse scaling the state is a plain sum over active steps, so a detector with schedule S and one with the
    # complementary step set must add up to the always-on detector - nothing may be accumulated at an inactive step
    if rng.uniform() < 0.6:
        kind = specgen.choice(rng, ["phasor", "projection_angle", "projection_angle"])
        box = specgen.rand_box(rng, spec["shape"], min_size=2 if kind == "projection_angle" else 1, max_size=4)
        sw = specgen.rand_switch(rng, T, p_default=0.0) or {"interval": 2}
        if not (0 < sum(specgen.switch_on_list(sw, T)) < T):
            sw = {"interval": 2}  # both step sets must be non-empty: a phasor detector that never records is refused at placement
        on = specgen.switch_on_list(sw, T)
        comp = {"fixed_on_time_steps": [t for t in range(T) if not on[t]]}
        base = {"kind": kind, "box": box, "wavelengths": [float(rng.uniform(6, 14)) * specgen.SPACING for _ in range(int(rng.integers(1, 3)))], "scaling_mode": "pulse", "dft_subsample": 1, "exact": True}
        if kind == "phasor":
            base.update({"components": specgen.rand_components(rng), "reduce": bool(rng.uniform() < 0.3)})
        dets += [{**base, "name": "acc_s", "switch": sw, "acc_group": True}, {**base, "name": "acc_c", "switch": comp}, {**base, "name": "acc_all"}]
    spec["detectors"] = dets
    spec["ops"] = [{"op": "crash_restore", "at": int(t)} for t in sorted(set(int(x) for x in rng.integers(1, T, size=int(rng.integers(0, 3)))))]
    return spec


def shrink(spec):
    if spec.get("mode") != "scene":
        return []
    out = []
    for s in specgen.generic_shrinks(spec):
        s["mode"] = "scene"
        out.append(s)
    return out


# ------------------------------------------------------------------ execution


def _exec_grid(spec):
    import fdtdx

    viol, stats = [], {"schedules": 0, "invalid_agree": 0, "grid_points": 0}
    dt = 1.0
    sws = _grid_switches()
    r = np.random.Generator(np.random.PCG64(spec["random_seed"]))
    rnd = []
    for _ in range(spec["n_random"]):
        T = int(r.integers(1, 25))
        s = specgen.rand_switch(r, T, p_default=0.1) or {}
        rnd.append({(k[:-3] if k.endswith("_dt") else k): v for k, v in s.items()})
    sigs = set()
    for T in spec["Ts"]:
        for sw in sws + rnd:
            if sw.get("fixed_on_time_steps") is not None and any(t >= T for t in sw["fixed_on_time_steps"]):
                continue
            want = rule_on_list(sw, T, dt)
            stats["grid_points"] += 1
            try:
                lib_sw = fdtdx.OnOffSwitch(**sw)
                got = lib_sw.calculate_on_list(num_total_time_steps=T, time_step_duration=dt)
                idx = lib_sw.calculate_time_step_to_on_arr_idx(num_total_time_steps=T, time_step_duration=dt)
            except Exception as e:
                if want == "invalid" or T == 0:
                    stats["invalid_agree"] += 1
                    continue
                if "Invalid" in str(e) or "Need to specify period" in str(e):
                    viol.append({"monitor": "valid_schedule_rejected", "switch": sw, "T": T, "error": str(e)[:100]})
                    continue
                raise
            if want == "invalid":
                if T > 0:
                    viol.append({"monitor": "invalid_schedule_accepted", "switch": sw, "T": T})
                continue
            stats["schedules"] += 1
            sigs.add((tuple(sorted(k for k in sw)), sum(want) == 0, sum(want) == T))
            if [bool(x) for x in got] != want:
                viol.append({"monitor": "on_list_mismatch", "switch": sw, "T": T, "got": [int(bool(x)) for x in got], "want": [int(x) for x in want]})
                continue
            c, exp_idx = 0, []
            for t in range(T):
                if want[t]:
                    exp_idx.append(c)
                    c += 1
                else:
                    exp_idx.append(-1)
            if [int(x) for x in idx] != exp_idx:
                viol.append({"monitor": "index_map_mismatch", "switch": sw, "T": T, "got": [int(x) for x in idx], "want": exp_idx})
    # exact-on-step window edges: start = k*dt / end = k*dt for an awkward dt (the 50 nm grid's own). The documented rule is the
    # closed comparison start <= t*dt <= end in plain float arithmetic, which the oracle mirrors expression by expression
    # (t*dt with the same operands), so these knife-edge cases are decidable without a tolerance
    dt_awk = 0.99 / math.sqrt(3) * 50e-9 / 299792458.0
    Tk = 72
    for k in range(0, Tk):
        for sw in ({"start_time": k * dt_awk}, {"end_time": k * dt_awk}, {"start_time": k * dt_awk, "end_time": (k + 3) * dt_awk}, {"start_time": k * dt_awk, "on_for_time": 4 * dt_awk}):
            want = rule_on_list(sw, Tk, dt_awk)
            got = fdtdx.OnOffSwitch(**sw).calculate_on_list(num_total_time_steps=Tk, time_step_duration=dt_awk)
            stats["grid_points"] += 1
            stats["exact_edge_points"] = stats.get("exact_edge_points", 0) + 1
            if [bool(x) for x in got] != want:
                viol.append({"monitor": "on_list_mismatch", "switch": sw, "T": Tk, "dt": dt_awk, "edge_on_step": k, "got": [int(bool(x)) for x in got], "want": [int(x) for x in want]})
    import hashlib, json

    digest = hashlib.sha1(json.dumps([stats, viol], sort_keys=True, default=str).encode()).hexdigest()[:16]
    stats["distinct_schedule_classes"] = len(sigs)
    return {"violations": viol[:5], "stats": stats, "residuals": {}, "nontrivial": True, "signature": "grid:" + ",".join(map(str, spec["Ts"])), "digest": digest}


def _unit_switch(sw):
    """spec switch (dt units) -> dict understood by rule_on_list with dt=1."""
    return {(k[:-3] if k.endswith("_dt") else k): v for k, v in (sw or {}).items()}


COMP = {"Ex": ("E", 0), "Ey": ("E", 1), "Ez": ("E", 2), "Hx": ("H", 0), "Hy": ("H", 1), "Hz": ("H", 2)}


def _exec_sparam_flow(spec):
    """Run the S-parameter-driver history in a float32 child process and judge its report."""
    import json
    import os
    import subprocess
    import sys

    from fdsim import env

    root = os.path.dirname(os.path.dirname(os.path.abspath(__file__)))
    p = subprocess.run([sys.executable, os.path.join(root, "fdsim", "sparamchild.py")], input=json.dumps(spec), capture_output=True, text=True, timeout=1500, env=dict(os.environ))
    line = next((ln for ln in p.stdout.splitlines()[::-1] if ln.startswith("CHILD-RESULT ")), None)
    if line is None and any(ln.startswith("CHILD-REJECT") for ln in p.stdout.splitlines()):
        return {"rejected": True, "nontrivial": False, "stats": {"rejected": 1, "probe_sparam_flow": 1}, "digest": "rejected:mode-solver"}
    if line is None:
        raise env.HarnessError(f"sparam child failed rc={p.returncode}: {(p.stderr or '')[-1500:]}")
    r = json.loads(line[len("CHILD-RESULT "):])
    gscale = max(r["scale"].values()) if r["scale"] else 0.0
    worst, wk = 0.0, ""
    for k, d in r["diff"].items():
        rel = d / max(r["scale"][k], 1e-3 * gscale) if gscale > 0 else (0.0 if d == 0 else float("inf"))
        if rel > worst:
            worst, wk = rel, k
    viol = []
    tol = 1e-4  # float32 run; a source that should be silent changes the records by O(1)
    if not (worst <= tol):
        viol.append({"monitor": "switched_off_source_still_injects", "flow": "fdtdx.utils.sparams.calculate_sparam", "active_port": spec["active"], "silent_ports": [p_["name"] for p_ in spec["inputs"] if p_["name"] != spec["active"]],
                     "metric": "rel_diff of detector states vs the run with the silent sources removed", "value": worst, "tolerance": tol, "key": wk})
    stats = {"sim_steps": 2 * r["T"], "sim_time_fs": 0.0, "fault_switch_off_after_placement": r["n_sources"] - 1, "probe_sparam_flow": 1}
    return {"violations": viol, "stats": stats, "residuals": {"sparam_flow_silent_source": worst}, "nontrivial": bool(gscale > 0),
            "signature": specgen.signature("sparam_flow", spec["axis"], len(spec["inputs"]), spec["pml"]), "digest": f"sparam:{r['T']}:{worst:.3g}:v{len(viol)}"}


def execute(spec):
    if spec.get("mode") == "sparam_flow":
        return _exec_sparam_flow(spec)
    if spec.get("mode") == "grid":
        from fdsim import env

        env.bootstrap()
        return _exec_grid(spec)
    from fdsim import scene as sc, driver as dr

    viol, stats, resid = [], {"sim_steps": 0, "sim_time_fs": 0.0}, {"inactive_injection": 0.0, "record_mismatch": 0.0}
    T = spec["steps"]
    det_on = {d["name"]: rule_on_list(_unit_switch(d.get("switch")), T) for d in spec["detectors"]}
    src_on = {s["name"]: rule_on_list(_unit_switch(s.get("switch")), T) for s in spec["sources"]}
    try:
        scn = sc.build_scene(spec)
    except NotImplementedError as e:
        return {"rejected": True, "nontrivial": False, "stats": {"rejected": 1}, "digest": "rejected:" + str(e)[:40]}
    if scn.T != T:
        from fdsim import env

        raise env.HarnessError(f"T mismatch {scn.T} != {T}")
    st = dr.Stepper(scn)
    # one counterfactual twin per source: the same scene with exactly that source removed
    names = [s["name"] for s in spec["sources"]]
    byname = {o.name: o for o in scn.objects.sources}
    forks = {n: dr.Stepper(scn, objects=scn.objects.replace_sources([byname[m] for m in names if m != n])) for n in names}
    crash_at = {o["at"] for o in spec.get("ops", [])}
    try:
        state = st.state0()
        traj, diffs = [], {n: [] for n in names}
        for t in range(T):
            ghosts = {n: forks[n].fwd(state, 1) for n in names}  # counterfactual: the same step without source n
            state = st.fwd(state, 1)
            fa = dr.fields_np(state)
            traj.append((fa["E"], fa["H"]))
            for n in names:
                fb = dr.fields_np(ghosts[n])
                diffs[n].append(max(float(np.max(np.abs(fa[k] - fb[k]))) if fa[k].size else 0.0 for k in fa))
            if (t + 1) in crash_at:
                state = dr.roundtrip(state)
                stats["fault_crash_restore"] = stats.get("fault_crash_restore", 0) + 1
        stats["fault_counterfactual_fork"] = T * len(names)
    except Exception as e:
        # explicit (property, construct) pair: the statement names the always-off / never-active schedule,
        # so a run that cannot even be traced because of such a detector is a violation, not a harness error
        never = [d["name"] for d in spec["detectors"] if not any(det_on[d["name"]])]
        cause = e.__cause__ if e.__cause__ is not None else e
        if never and isinstance(cause, IndexError) and "size 0" in str(cause):
            return {
                "violations": [{"monitor": "never_active_detector_breaks_run", "detectors": never, "error": str(e)[:120]}],
                "stats": stats, "residuals": {}, "nontrivial": True,
                "signature": specgen.scene_signature(spec, "never_active"), "digest": "never_active_crash",
            }
        raise
    stats["sim_steps"] = (1 + len(names)) * T
    stats["sim_time_fs"] = stats["sim_steps"] * scn.dt * 1e15
    scale = max(max(float(np.max(np.abs(e))), float(np.max(np.abs(h)))) for e, h in traj)
    n_inactive_nonzero = 0
    for n in names:
        for t in range(T):
            if not src_on[n][t]:
                rel = diffs[n][t] / scale if scale > 0 else (0.0 if diffs[n][t] == 0 else float("inf"))
                resid["inactive_injection"] = max(resid["inactive_injection"], rel)
                if rel > 1e-12:
                    viol.append({"monitor": "injection_at_inactive_step", "source": n, "kind": byname[n].__class__.__name__, "step": t, "metric": "rel_diff", "value": rel, "tolerance": 1e-12})
                    break
                if scale > 0 and (np.max(np.abs(traj[t][0])) > 0 or np.max(np.abs(traj[t][1])) > 0):
                    n_inactive_nonzero += 1
            elif diffs[n][t] > 0:
                stats["probe_active_step_injected"] = stats.get("probe_active_step_injected", 0) + 1
    # detectors: exactly-once, ordered, equal to the trajectory
    dets = dr.detectors_np(state)
    n_records = 0
    if any(d.get("acc_group") for d in spec["detectors"]):
        keys = sorted(k.split("/", 1)[1] for k in dets if k.startswith("acc_all/"))
        worst = 0.0
        for key in keys:
            a, b, c = dets["acc_s/" + key], dets["acc_c/" + key], dets["acc_all/" + key]
            sc_k = max(float(np.max(np.abs(c))) if c.size else 0.0, float(np.max(np.abs(a))) if a.size else 0.0, float(np.max(np.abs(b))) if b.size else 0.0)
            worst = max(worst, dr.rel_diff(a + b, c, sc_k if sc_k > 0 else None))
        resid["accumulator_additivity"] = worst if np.isfinite(worst) else 1e300
        stats["probe_accumulator_group_" + next(d["kind"] for d in spec["detectors"] if d.get("acc_group"))] = 1
        if not (worst <= 1e-12):
            viol.append({"monitor": "accumulated_at_inactive_step", "kind": next(d["kind"] for d in spec["detectors"] if d.get("acc_group")), "metric": "rel_diff of state(S)+state(complement) vs state(always on)", "value": worst, "tolerance": 1e-12})
        else:
            n_records += 1
    for d in spec["detectors"]:
        if d["name"].startswith("acc_"):
            continue
        on = det_on[d["name"]]
        active = [t for t in range(T) if on[t]]
        if d.get("twin"):
            for key in sorted(k for k in dets if k.startswith(d["name"] + "/")):
                rec, twin = dets[key], dets[d["twin"] + "/" + key.split("/", 1)[1]]
                if rec.shape[0] != len(active) or twin.shape[0] != T:
                    viol.append({"monitor": "record_count", "detector": d["name"], "kind": d["kind"], "got": int(rec.shape[0]), "want": len(active), "twin_records": int(twin.shape[0])})
                    break
                want = twin[active]
                sc_k = float(np.max(np.abs(twin))) if twin.size else 0.0
                rd = dr.rel_diff(want, rec, sc_k if sc_k > 0 else None)
                resid["twin_mismatch"] = max(resid.get("twin_mismatch", 0.0), rd if np.isfinite(rd) else 1e300)
                if not (rd <= 1e-12):
                    bad = [j for j in range(len(active)) if dr.rel_diff(want[j], rec[j], sc_k if sc_k > 0 else None) > 1e-12]
                    viol.append({"monitor": "record_differs_from_always_on_twin", "detector": d["name"], "kind": d["kind"], "record": bad[0] if bad else -1, "step": active[bad[0]] if bad else -1, "metric": "rel_diff", "value": rd, "tolerance": 1e-12})
                    break
                n_records += len(active)
                stats["probe_twin_records"] = stats.get("probe_twin_records", 0) + len(active)
            continue
        if d["name"].endswith("_twin"):
            continue
        rec = dets[f"{d['name']}/fields"]
        if rec.shape[0] != len(active):
            viol.append({"monitor": "record_count", "detector": d["name"], "got": int(rec.shape[0]), "want": len(active)})
            continue
        box = tuple(slice(a, b) for a, b in d["box"])
        for j, t in enumerate(active):
            want = np.stack([traj[t][0 if COMP[c][0] == "E" else 1][COMP[c][1]][box] for c in d["components"]])
            rd = dr.rel_diff(want, rec[j], scale if scale > 0 else None)
            resid["record_mismatch"] = max(resid["record_mismatch"], rd if np.isfinite(rd) else 1e300)
            if not (rd <= 1e-12):
                viol.append({"monitor": "record_mismatch", "detector": d["name"], "record": j, "step": t, "metric": "rel_diff", "value": rd, "tolerance": 1e-12})
                break
            n_records += 1
    stats["probe_never_active_detector"] = sum(1 for d in spec["detectors"] if not any(det_on[d["name"]]))
    stats["probe_never_active_source"] = sum(1 for n in src_on if not any(src_on[n]))
    for s_ in spec["sources"]:
        stats["probe_source_" + s_["kind"]] = stats.get("probe_source_" + s_["kind"], 0) + 1
    stats["records_checked"] = n_records
    stats["inactive_steps_with_field"] = n_inactive_nonzero
    kinds = sorted(set(tuple(sorted((s.get("switch") or {}).keys())) for s in spec["sources"] + spec["detectors"]))
    sig = specgen.scene_signature(spec, kinds)
    digest = dr.digest_arrays(dr.full_np(state)) + f":{dr.sig3(resid['inactive_injection'])}:{dr.sig3(resid['record_mismatch'])}:v{len(viol)}"
    return {"violations": viol, "stats": stats, "residuals": resid, "nontrivial": bool(n_records > 0 or n_inactive_nonzero > 0), "signature": sig, "digest": digest}
