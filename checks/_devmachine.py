"""Shared history machine for C18 (device parameters -> materials) and C29 (stale derived state).

One container, a seeded history of APPLY(parameter set) / DUP / RUN(short simulation) operations,
each APPLY on the arrays and objects returned by the previous operation.
"""
from __future__ import annotations

import numpy as np

from fdsim import specgen


def _mat(rng, tier, lo=1.5, hi=8.0, dispersive=False, magnetic=False):
    m = {}
    if tier == "iso":
        m["permittivity"] = float(rng.uniform(lo, hi))
    elif tier == "diag":
        m["permittivity"] = [float(x) for x in rng.uniform(lo, hi, size=3)]
    else:
        A = rng.normal(size=(3, 3))
        Q, _ = np.linalg.qr(A)
        M = Q @ np.diag(rng.uniform(lo, hi, size=3)) @ Q.T
        M = 0.5 * (M + M.T)
        m["permittivity"] = [[float(x) for x in row] for row in M]
    if magnetic:
        m["permeability"] = float(rng.uniform(1.2, 3.0))
    if dispersive:
        m["dispersion"] = specgen.rand_dispersion(rng, p_per_axis=0.0)  # per-axis poles count as anisotropic for plane sources (rejected at apply)
    return m


def _intervals_relation(rng, lo, hi, n, kind):
    """interval [a,b) relative to device interval [lo,hi) within [0,n)."""
    if kind == "inside" and hi - lo >= 3:
        a = int(rng.integers(lo + 1, hi - 1))
        b = int(rng.integers(a + 1, hi))
        return [a, b]
    if kind == "equal":
        return [lo, hi]
    if kind == "containing":
        return [int(rng.integers(0, lo + 1)), int(rng.integers(hi, n + 1))]
    if kind == "partial" and hi - lo >= 2:
        if rng.uniform() < 0.5 and lo > 0:
            return [int(rng.integers(0, lo)), int(rng.integers(lo + 1, hi))]
        if hi < n:
            return [int(rng.integers(lo + 1, hi)), int(rng.integers(hi + 1, n + 1))]
    if kind == "touching":
        if lo > 0 and rng.uniform() < 0.5:
            return [int(rng.integers(0, lo)), lo]
        if hi < n:
            return [hi, int(rng.integers(hi + 1, n + 1))]
    if kind == "disjoint":
        if lo > 1 and rng.uniform() < 0.5:
            b = int(rng.integers(1, lo))
            return [int(rng.integers(0, b)), b]
        if hi < n - 1:
            a = int(rng.integers(hi + 1, n))
            return [a, int(rng.integers(a + 1, n + 1))]
    return [lo, hi]


def generate(rng, tier, index, focus):
    shape = [int(rng.integers(7, 11)) for _ in range(3)]
    faces = specgen.rand_faces(rng, kinds_pair=("periodic",), kinds_single=("pec", "none"), pml=None)
    grid = {"kind": "uniform", "spacing": specgen.SPACING} if rng.uniform() < 0.8 else specgen.rand_grid(rng, shape, 1.0)
    T = 3
    spec = {"shape": shape, "grid": grid, "steps": T, "faces": faces, "key": int(rng.integers(0, 2**31))}
    # object names are unique per run: whatever the library may remember per object *name* across placements (objects hash
    # and compare by name) is then first written by this run's own decoy scene, not by an earlier run of the same worker
    tag = f"{int(rng.integers(0, 1 << 30)):x}"
    mtier = specgen.choice(rng, ["iso", "iso", "diag", "full"])
    dispersive = bool(mtier != "full" and rng.uniform() < 0.3)
    magnetic = bool(rng.uniform() < 0.2)
    # in 40% of the dispersive scenes the devices consist of plain (non-dispersive) materials and sit on top of a large
    # dispersive background object
    plain_dev = bool(dispersive and rng.uniform() < 0.4)
    # background objects (x >= 1 keeps the probe column free)
    objs = []
    for i in range(int(rng.integers(1 if plain_dev else 0, 3))):
        box = specgen.rand_box(rng, shape, min_size=[max(1, n // 2) for n in shape] if plain_dev else 1, inner=[[1, shape[0]], [0, shape[1]], [0, shape[2]]])
        # background objects may be dispersive too: a device made of plain materials that covers them must leave *its own*
        # (zero) pole coefficients in its cells, not the background's
        objs.append({"kind": "box", "name": f"bg{i}", "box": box, "material": _mat(rng, specgen.choice(rng, ["iso", mtier]), magnetic=magnetic and rng.uniform() < 0.5, dispersive=dispersive and (plain_dev or rng.uniform() < 0.6)), "order": i})
    devices = []
    ndev = int(rng.integers(1, 3))
    x_split = [1, shape[0]] if ndev == 1 else None
    regions = [[[1, shape[0]], [0, shape[1]], [0, shape[2]]]] if ndev == 1 else [
        [[1, 1 + (shape[0] - 1) // 2], [0, shape[1]], [0, shape[2]]],
        [[1 + (shape[0] - 1) // 2, shape[0]], [0, shape[1]], [0, shape[2]]],
    ]
    for i, reg in enumerate(regions):
        voxel = [int(rng.integers(1, 4)) for _ in range(3)]
        box = []
        for a in range(3):
            span = reg[a][1] - reg[a][0]
            v = min(voxel[a], span)
            voxel[a] = v
            nvox = int(rng.integers(1, span // v + 1))
            lo = int(rng.integers(reg[a][0], reg[a][1] - nvox * v + 1))
            box.append([lo, lo + nvox * v])
        mode = specgen.choice(rng, ["continuous", "discrete", "etched"] + (["discrete", "discrete"] if dispersive else []))
        if mode == "etched":
            mats = {"etch": _mat(rng, mtier, lo=1.0, hi=2.0)}
        elif mode == "continuous":
            mats = {"a": _mat(rng, mtier, dispersive=dispersive and rng.uniform() < 0.5), "b": _mat(rng, mtier, dispersive=dispersive)}
        else:
            ml = [_mat(rng, mtier, dispersive=dispersive and not plain_dev and rng.uniform() < 0.6) for j in range(int(rng.integers(2, 5)))]
            if dispersive and not plain_dev and not any(x.get("dispersion") for x in ml):
                ml[int(rng.integers(0, len(ml)))]["dispersion"] = specgen.rand_dispersion(rng, p_per_axis=0.0)
            # material names are labels only: in half of the devices their alphabetical order is the reverse of the permittivity
            # order (tables kept per material must all follow one common order, whatever the names are)

            def _pkey(x):
                pv = x["permittivity"]
                return float(np.trace(np.array(pv))) if isinstance(pv, list) and isinstance(pv[0], list) else float(np.sum(pv)) if isinstance(pv, list) else float(pv)

            if rng.uniform() < 0.5:
                ml = sorted(ml, key=_pkey, reverse=True)
            mats = {f"m{j}": x for j, x in enumerate(ml)}
        devices.append({"name": f"dev{i}_{tag}", "box": box, "voxel": voxel, "mode": "continuous" if mode == "etched" else mode, "etch": mode == "etched", "materials": mats})
    # probe cells: one static cell per device material in the x = 0 column (reference vectors)
    j = 0
    for dv in devices:
        for mn, m in dv["materials"].items():
            if j < shape[1] * shape[2]:
                y, z = j % shape[1], j // shape[1]
                objs.append({"kind": "box", "name": f"probe_{dv['name']}_{mn}", "box": [[0, 1], [y, y + 1], [z, z + 1]], "material": m, "order": 50})
                j += 1
    spec["materials"] = {"mode": "objects", "objects": objs}
    spec["devices"] = devices
    all_iso = mtier == "iso" and not any(isinstance(o["material"].get("permittivity"), list) for o in objs)
    srcs, dets = [], []
    rel_kinds = ["inside", "inside", "equal", "containing", "partial", "touching", "disjoint"]
    for i in range(int(rng.integers(1, 4))):
        dv = devices[int(rng.integers(0, len(devices)))]
        rel = [specgen.choice(rng, rel_kinds) for _ in range(3)]
        if focus == "C29" and rng.uniform() < 0.5:
            rel = ["inside"] * 3
        box = [_intervals_relation(rng, dv["box"][a][0], dv["box"][a][1], shape[a], rel[a]) for a in range(3)]
        kind = specgen.choice(rng, ["dipole", "uniform_plane", "gaussian_plane"]) if all_iso else "dipole"
        cpw = float(rng.uniform(8, 14))
        s = {"name": f"s{i}_{tag}", "wavelength": cpw * specgen.SPACING, "profile": {"kind": "cw"}, "relation": rel}
        if kind == "dipole":
            p = [int(rng.integers(b[0], b[1])) for b in box]
            s.update({"kind": "dipole", "box": [[x, x + 1] for x in p], "polarization": int(rng.integers(0, 3)), "source_type": specgen.choice(rng, ["electric", "magnetic"]), "amplitude": 1.0})
        else:
            ax = int(rng.integers(0, 3))
            p = int(rng.integers(box[ax][0], box[ax][1]))
            box[ax] = [p, p + 1]
            for a in range(3):
                if a != ax and box[a][1] - box[a][0] < 2:
                    box[a] = [max(0, box[a][0] - 1), min(shape[a], box[a][0] + 1)] if box[a][0] > 0 else [0, 2]
            t1 = (ax + 1) % 3
            pol = [0.0, 0.0, 0.0]
            pol[t1] = 1.0
            s.update({"kind": kind, "box": box, "direction": specgen.choice(rng, ["+", "-"]), "e_pol": pol})
            if kind == "gaussian_plane":
                s["radius"] = 2.5 * specgen.SPACING
        srcs.append(s)
    if focus == "C29" and all_iso and not dispersive and (index % 4 == 1 or rng.uniform() < 0.1):
        # a material-dependent object: a mode source on a full transverse plane that cuts a device (its mode profile is solved
        # from every material array on that plane); in most of these scenes the background is conductive, so the
        # conductivity array is one of the arrays the re-applied source must be given
        dv = devices[int(rng.integers(0, len(devices)))]
        ax = int(rng.integers(0, 3))
        p = int(rng.integers(dv["box"][ax][0], dv["box"][ax][1]))
        if 1 <= p < shape[ax] - 1 or ax != 0:
            box = [[0, n] for n in shape]
            box[ax] = [p, p + 1]
            if ax != 0:
                box[0] = [1, shape[0]]  # the probe column (x = 0) holds unrelated reference cells
            cpw = float(rng.uniform(8, 14))
            srcs.append({"kind": "mode", "name": f"sm_{tag}", "box": box, "direction": specgen.choice(rng, ["+", "-"]), "wavelength": cpw * specgen.SPACING,
                         "profile": {"kind": "cw"}, "mode_index": 0, "relation": ["mode_plane"] * 3})
            if rng.uniform() < 0.75:
                bgs = [o for o in objs if o["name"].startswith("bg")]
                if not bgs:
                    bgs = [{"kind": "box", "name": "bg0", "box": [[1, shape[0]], [0, shape[1]], [0, shape[2]]], "material": _mat(rng, "iso"), "order": 0}]
                    objs.insert(0, bgs[0])
                for o in bgs:
                    o["material"]["electric_conductivity"] = float(rng.uniform(0.05, 0.5))
    for i in range(int(rng.integers(0, 3))):
        dets.append(specgen.rand_field_detector(rng, f"d{i}_{tag}", shape, T, switch=False))
    spec["sources"], spec["detectors"] = srcs, dets
    ops = []
    for _ in range(int(rng.integers(2, 6))):
        k = specgen.choice(rng, ["apply", "apply", "dup", "run"])
        if k == "apply" or not ops:
            ops.append({"op": "apply", "seeds": [int(rng.integers(0, 2**31)) for _ in devices]})
        elif k == "dup":
            ops.append({"op": "dup"})
        else:
            ops.append({"op": "run"})
    if ops[-1]["op"] == "run":
        ops.append({"op": "apply", "seeds": [int(rng.integers(0, 2**31)) for _ in devices]})
    spec["ops"] = ops
    spec["focus"] = focus
    # history beyond this container: in 40% of the runs a *decoy* scene with the same object names is placed and applied first
    # in the same process, with every device shrunk to a single voxel in a corner that touches no source or detector;
    # anything the library remembers per object name across placements would then be stale for the real scene
    spec["prior_scene_same_names"] = bool(rng.uniform() < 0.4)
    return spec


def shrink(spec):
    import copy

    out = []
    for i in range(len(spec["ops"])):
        if sum(1 for o in spec["ops"] if o["op"] == "apply") > 1 or spec["ops"][i]["op"] != "apply":
            s = copy.deepcopy(spec)
            s["ops"].pop(i)
            if s["ops"] and s["ops"][0]["op"] == "apply":
                out.append(s)
    for key in ("sources", "detectors"):
        for i in range(len(spec[key])):
            if key == "sources" and len(spec[key]) == 1:
                continue
            s = copy.deepcopy(spec)
            s[key].pop(i)
            out.append(s)
    for i, o in enumerate(spec["materials"]["objects"]):
        if o["name"].startswith("bg"):
            s = copy.deepcopy(spec)
            s["materials"]["objects"].pop(i)
            out.append(s)
    if len(spec["devices"]) > 1:
        for i in range(len(spec["devices"])):
            s = copy.deepcopy(spec)
            dn = s["devices"][i]["name"]
            s["devices"].pop(i)
            s["materials"]["objects"] = [o for o in s["materials"]["objects"] if not o["name"].startswith(f"probe_{dn}_")]
            for o in s["ops"]:
                if "seeds" in o:
                    o["seeds"].pop(i)
            out.append(s)
    if spec["grid"]["kind"] == "rect":
        s = copy.deepcopy(spec)
        s["grid"] = {"kind": "uniform", "spacing": specgen.SPACING}
        out.append(s)
    return out


MAT_KEYS = ("inv_permittivities", "inv_permeabilities", "electric_conductivity", "magnetic_conductivity", "dispersive_c1", "dispersive_c2", "dispersive_c3", "dispersive_c4")


def _cellvec(m, key, idx):
    a = m.get(key)
    if a is None:
        return None
    if a.ndim == 0:
        return a
    lead = a.ndim - 3
    return a[(slice(None),) * lead + tuple(idx)]


def execute(spec, focus):
    import fdtdx
    import jax
    import jax.numpy as jnp
    from fdtdx.objects.detectors.detector import Detector
    from fdtdx.objects.sources.source import Source
    from fdsim import scene as sc, driver as dr, devices as dvm

    prior_fired = 0
    if spec.get("prior_scene_same_names"):
        import copy as _copy

        decoy = _copy.deepcopy(spec)
        shp = spec["shape"]

        def _hits(b1, b2):
            return all(max(a0, b0) < min(a1, b1_) for (a0, a1), (b0, b1_) in zip(b1, b2))

        # the decoy keeps every source and detector where it is and shrinks each device to one voxel in a corner that touches
        # none of them: whatever is remembered per (device name, object name) then says "independent of the device"
        taken = [o["box"] for o in spec["sources"] + spec["detectors"]]
        ok_decoy = True
        for dv in decoy["devices"]:
            v = dv["voxel"]
            spot = None
            for cx in (1, shp[0] - v[0]):
                for cy in (0, shp[1] - v[1]):
                    for cz in (0, shp[2] - v[2]):
                        cand = [[cx, cx + v[0]], [cy, cy + v[1]], [cz, cz + v[2]]]
                        if cx >= 1 and all(c[1] <= n for c, n in zip(cand, shp)) and not any(_hits(cand, t) for t in taken):
                            spot = spot or cand
            if spot is None:
                ok_decoy = False
                break
            dv["box"] = spot
            taken.append(spot)
        if not ok_decoy:
            decoy = None
        try:
            if decoy is not None:
                dsc = sc.build_scene(decoy, apply=False)
                dparams = {dv["name"]: jnp.asarray(dvm.make_params(dv, 1), dtype=jnp.float64) for dv in decoy["devices"]}
                fdtdx.apply_params(dsc.arrays, dsc.objects, dparams, dsc.key)
                prior_fired = 1
        except NotImplementedError:
            pass
    try:
        scn = sc.build_scene(spec, apply=False)
    except NotImplementedError as e:
        return {"rejected": True, "nontrivial": False, "stats": {"rejected": 1}, "digest": "rejected:" + str(e)[:50]}
    arrays0, objs0, key = scn.arrays, scn.objects, scn.key
    m0 = dr.materials_np(arrays0)
    shape = tuple(spec["shape"])
    devs = spec["devices"]
    outside = np.ones(shape, dtype=bool)
    for dv in devs:
        outside[tuple(slice(a, b) for a, b in dv["box"])] = False
    viol, stats, resid = [], {"sim_steps": 0, "sim_time_fs": 0.0, "applies": 0}, {}
    if prior_fired:
        stats["fault_prior_scene_same_names"] = 1
    ncomp = m0["inv_permittivities"].shape[0]

    def perm_tuple(mspec):
        """material permittivity -> component vector of the array's tier (1|3|9)."""
        p = mspec.get("permittivity", 1.0)
        M = np.eye(3) * p if not isinstance(p, list) else (np.diag(p) if not isinstance(p[0], list) else np.array(p, dtype=float))
        if ncomp == 1:
            return np.array([M[0, 0]])
        if ncomp == 3:
            return np.diag(M).copy()
        return M.reshape(9)

    def inv_tuple(v):
        return 1.0 / v if v.shape[0] in (1, 3) else np.linalg.inv(v.reshape(3, 3)).reshape(9)

    def check_c18(arrays, pmaps):
        m = dr.materials_np(arrays)
        # (1) outside devices nothing changes - bitwise, every material array
        for k in MAT_KEYS:
            if (k in m) != (k in m0):
                viol.append({"monitor": "material_array_set_changed", "array": k})
                continue
            if k not in m or m[k].ndim == 0:
                if k in m and not np.array_equal(m[k], m0[k]):
                    viol.append({"monitor": "cells_outside_devices_changed", "array": k})
                continue
            lead = m[k].ndim - 3
            a = m[k][(slice(None),) * lead + (outside,)]
            b = m0[k][(slice(None),) * lead + (outside,)]
            if not np.array_equal(a, b):
                viol.append({"monitor": "cells_outside_devices_changed", "array": k})
        # (2) device cells
        for dv, p in zip(devs, pmaps):
            sl = tuple(slice(a, b) for a, b in dv["box"])
            pe = dvm.expand(p, dv["voxel"])
            got = m["inv_permittivities"][(slice(None),) + sl]
            names = dvm.sorted_material_names(dv["materials"])
            if dv["mode"] == "continuous":
                if dv.get("etch"):
                    bg_inv = m0["inv_permittivities"][(slice(None),) + sl]
                    bg = 1.0 / bg_inv if ncomp in (1, 3) else np.linalg.inv(np.moveaxis(bg_inv, 0, -1).reshape(*pe.shape, 3, 3)).reshape(*pe.shape, 9).transpose(3, 0, 1, 2)
                    e1 = perm_tuple(dv["materials"][names[0]]).reshape(-1, 1, 1, 1)
                    blend = bg + pe[None] * (e1 - bg)
                else:
                    e0 = perm_tuple(dv["materials"][names[0]]).reshape(-1, 1, 1, 1)
                    e1 = perm_tuple(dv["materials"][names[1]]).reshape(-1, 1, 1, 1)
                    blend = e0 + pe[None] * (e1 - e0)
                if ncomp in (1, 3):
                    want = 1.0 / blend
                else:
                    want = np.linalg.inv(np.moveaxis(blend, 0, -1).reshape(*pe.shape, 3, 3)).reshape(*pe.shape, 9).transpose(3, 0, 1, 2)
                d = dr.rel_diff(want, got)
                resid["continuous_blend"] = max(resid.get("continuous_blend", 0.0), d if np.isfinite(d) else 1e300)
                if not (d <= 1e-12):
                    viol.append({"monitor": "continuous_blend_mismatch", "device": dv["name"], "etch": bool(dv.get("etch")), "metric": "rel_diff", "value": d, "tolerance": 1e-12})
                if ncomp in (1, 3) and not dv.get("etch"):
                    lo = np.minimum(1.0 / e0, 1.0 / e1) * (1 - 1e-12)
                    hi = np.maximum(1.0 / e0, 1.0 / e1) * (1 + 1e-12)
                    if np.any(got < lo) or np.any(got > hi):
                        viol.append({"monitor": "continuous_out_of_material_range", "device": dv["name"]})
            else:
                idx = dvm.nearest_index(pe, len(names))
                stats["probe_discrete_materials_used"] = stats.get("probe_discrete_materials_used", 0) + len(np.unique(idx))
                for k in ("inv_permittivities", "dispersive_c1", "dispersive_c2", "dispersive_c3", "dispersive_c4"):
                    if k not in m:
                        continue
                    lead = m[k].ndim - 3
                    gotk = m[k][(slice(None),) * lead + sl]
                    want = np.zeros_like(gotk)
                    ok_ref = True
                    for j, mn in enumerate(names):
                        pj = [o for o in spec["materials"]["objects"] if o["name"] == f"probe_{dv['name']}_{mn}"]
                        if not pj:
                            ok_ref = False
                            break
                        cell = tuple(b[0] for b in pj[0]["box"])
                        ref = m0[k][(slice(None),) * lead + cell]
                        want[(slice(None),) * lead + (idx == j,)] = ref.reshape(ref.shape + (1,))
                    if not ok_ref:
                        continue
                    d = dr.rel_diff(want, gotk, max(float(np.max(np.abs(want))), 1e-300))
                    resid["discrete_" + k] = max(resid.get("discrete_" + k, 0.0), d if np.isfinite(d) else 1e300)
                    if not (d <= 1e-12):
                        viol.append({"monitor": "discrete_cell_not_a_device_material", "device": dv["name"], "array": k, "metric": "rel_diff", "value": d, "tolerance": 1e-12})
        return m

    def truly_intersects(obj):
        for dv in devs:
            if all(max(a0, b[0]) < min(a1, b[1]) for (a0, a1), b in zip(obj.grid_slice_tuple, dv["box"])):
                return True
        return False

    def check_c29(arrays, objs):
        for o in objs.object_list:
            if not isinstance(o, (Source, Detector)):
                continue
            if not truly_intersects(o):
                continue
            fresh = o.apply(
                key=key, inv_permittivities=arrays.inv_permittivities, inv_permeabilities=arrays.inv_permeabilities,
                dispersive_c1=arrays.dispersive_c1, dispersive_c2=arrays.dispersive_c2, dispersive_c3=arrays.dispersive_c3,
                dispersive_c4=arrays.dispersive_c4, electric_conductivity=arrays.electric_conductivity,
            )
            la, lb = jax.tree.leaves(o), jax.tree.leaves(fresh)
            stats["objects_compared"] = stats.get("objects_compared", 0) + 1
            if type(o).__name__ == "ModePlaneSource":
                stats["probe_mode_source_compared"] = stats.get("probe_mode_source_compared", 0) + 1
                if arrays.electric_conductivity is not None and float(jnp.max(jnp.abs(arrays.electric_conductivity[(slice(None),) + tuple(slice(a, b) for a, b in o.grid_slice_tuple)]))) > 0:
                    stats["probe_mode_source_on_conductive_plane"] = stats.get("probe_mode_source_on_conductive_plane", 0) + 1
            if len(la) != len(lb):
                viol.append({"monitor": "stale_object_state", "object": o.name, "detail": "leaf count differs"})
                continue
            worst = 0.0
            for x, y in zip(la, lb):
                if hasattr(x, "shape") and hasattr(y, "shape"):
                    worst = max(worst, dr.rel_diff(np.array(x), np.array(y)))
            resid["object_state"] = max(resid.get("object_state", 0.0), worst if np.isfinite(worst) else 1e300)
            if not (worst <= 1e-12):
                rel = next((s.get("relation") for s in spec["sources"] if s["name"] == o.name), None)
                viol.append({"monitor": "stale_object_state", "object": o.name, "kind": type(o).__name__, "relation": rel, "metric": "rel_diff", "value": worst, "tolerance": 1e-12})
            if isinstance(o, Source):
                inside = any(all(b[0] < a0 and a1 < b[1] for (a0, a1), b in zip(o.grid_slice_tuple, dv["box"])) for dv in devs)
                stats["probe_source_strictly_inside_device"] = stats.get("probe_source_strictly_inside_device", 0) + int(inside)

    arrays, objs = arrays0, objs0
    last = None
    for op in spec["ops"]:
        if op["op"] == "dup" and last is None:
            continue
        if op["op"] in ("apply", "dup"):
            seeds = op["seeds"] if op["op"] == "apply" else last
            pmaps = [dvm.make_params(dv, s) for dv, s in zip(devs, seeds)]
            params = {dv["name"]: jnp.asarray(p, dtype=jnp.float32 if spec.get("dtype") == "float32" else jnp.float64) for dv, p in zip(devs, pmaps)}
            pmaps = [np.array(params[dv["name"]], dtype=np.float64) for dv in devs]
            arrays, objs, _ = fdtdx.apply_params(arrays, objs, params, key)
            stats["applies"] += 1
            stats["fault_" + ("duplicate_apply" if op["op"] == "dup" else "apply")] = stats.get("fault_" + ("duplicate_apply" if op["op"] == "dup" else "apply"), 0) + 1
            last = seeds
            if focus == "C18":
                check_c18(arrays, pmaps)
            else:
                check_c29(arrays, objs)
        elif op["op"] == "run" and last is not None:
            _, arrays = fdtdx.run_fdtd(arrays, objs, scn.config, key, show_progress=False)
            stats["sim_steps"] += scn.T
            stats["fault_interleaved_run"] = stats.get("fault_interleaved_run", 0) + 1
    if focus == "C18" and last is not None:
        pm = [dvm.make_params(dv, s) for dv, s in zip(devs, last)]
        params = {dv["name"]: jnp.asarray(p, dtype=jnp.float64) for dv, p in zip(devs, pm)}
        a1, _, _ = fdtdx.apply_params(arrays0, objs0, params, key)
        d, k = dr.dict_rel_diff(dr.materials_np(a1), dr.materials_np(arrays))
        resid["history_vs_last_only"] = d if np.isfinite(d) else 1e300
        if not (d <= 1e-13):
            viol.append({"monitor": "history_leaves_different_materials", "metric": "rel_diff", "value": d, "tolerance": 1e-13, "key": k})
    stats["sim_time_fs"] = stats["sim_steps"] * scn.dt * 1e15
    stats["probe_etched"] = sum(1 for dv in devs if dv.get("etch"))
    stats["probe_discrete"] = sum(1 for dv in devs if dv["mode"] == "discrete")
    stats["probe_dispersive"] = int("dispersive_c1" in m0)
    bg_disp = [o for o in spec["materials"]["objects"] if o["name"].startswith("bg") and o["material"].get("dispersion")]
    stats["probe_plain_discrete_device_over_dispersive_background"] = sum(
        1 for dv in devs if dv["mode"] == "discrete" and not any(m.get("dispersion") for m in dv["materials"].values())
        and any(all(max(a0, b0) < min(a1, b1) for (a0, a1), (b0, b1) in zip(dv["box"], o["box"])) for o in bg_disp))
    stats["probe_components_" + str(ncomp)] = 1
    seen = set()
    viol = [v for v in viol if not (v["monitor"] in seen or seen.add(v["monitor"]))]
    sig = specgen.signature(specgen.face_kinds(spec["faces"]), spec["grid"]["kind"], ncomp, [(dv["mode"], dv.get("etch"), len(dv["materials"]), dv["voxel"] != [1, 1, 1]) for dv in devs],
                            sorted((s["kind"], tuple(s.get("relation", []))) for s in spec["sources"]), [o["op"] for o in spec["ops"]])
    digest = dr.digest_arrays(dr.materials_np(arrays)) + ":" + ",".join(f"{k}={dr.sig3(v)}" for k, v in sorted(resid.items())) + f":v{len(viol)}"
    return {"violations": viol, "stats": stats, "residuals": resid, "nontrivial": stats["applies"] > 0, "signature": sig, "digest": digest}
