"""C01 — discrete electromagnetic energy is conserved; lossy media only dissipate.

The simulator owns the time loop: after *every* real `forward` step the discrete Yee energy is
evaluated by an independent NumPy functional; host snapshots / crash / restore are injected at
seeded steps (energy must be continuous across a restore).
"""
from __future__ import annotations

import numpy as np

from fdsim import specgen

PROPERTY = "C01"
LEVEL = "exploration"
RUNS = {"quick": 24, "thorough": 600}
RULE = (
    "closed source-free scenes: every face from {periodic pair, Bloch pair (random k, complex fields), PEC, PMC, zero halo}, "
    "uniform or random non-uniform grid, random per-cell isotropic/diagonal eps and mu, optional sigma_E >= 0; random wall-"
    "compatible initial fields; 5-40 steps with seeded snapshot/crash/restore points. non-trivial = initial energy > 0; "
    "distinct = boundary tuple x grid kind x material tiers x lossy flag x fault kinds"
)
REAL = ["place_objects", "forward (update_E, update_H, curl, pad, PEC/PMC/Bloch boundaries)"]
STUB = ["durable storage = host numpy copy", "initial fields written by the driver (no source)"]
ASSUMPTIONS = ["float64; conservation tolerance 2e-13 relative (measured worst 4e-16 over 400 scenes) over <= 40 steps", "energy functional re-derived from the statement (dual widths 0.5(w_i+w_{i-1}), w_-1 := w_0)"]
TECHNIQUE = "deterministic simulation: per-step energy invariant on the driver-owned time loop with seeded crash/restore"
LEVEL_TEXT = "Seeded exploration of closed scenes; invariant |U_n-U_0| <= 2e-13 U_0 (lossless) / U_{n+1} <= U_n (lossy) checked after every simulated step and across restores."
LEVEL_NOTE = "float64 CPU; grids <= 10^3, <= 40 steps; oracle is an independent NumPy energy functional"
TOL = 2e-13  # measured worst drift over 400 seeded scenes (T <= 40, grids <= 9^3, far-from-origin grids included): see evidence worst_residuals


def generate(rng, tier, index):
    T = int(rng.integers(5, 41 if tier == "thorough" else 25))
    shape = specgen.rand_shape(rng, 3, 9)
    bloch = bool(rng.uniform() < 0.35)
    faces = specgen.rand_faces(rng, kinds_pair=("periodic",), kinds_single=("pec", "pmc", "none"), pml=None, bloch=bloch)
    grid = specgen.rand_grid(rng, shape, 0.5)
    off_draw = [float(specgen.choice(rng, [0.0, 1e-3, 0.05, 1.0]) * (1 if rng.uniform() < 0.5 else -1)) for _ in range(3)]
    if grid["kind"] == "rect" and rng.uniform() < 0.4:
        # absolute layout coordinates far from the origin: cell widths are then small differences of large edge coordinates
        # (relative rounding 2e-16 * |coordinate| / width); conservation must hold for the widths the edges actually define
        grid["edges"] = [[x + o for x in e] for e, o in zip(grid["edges"], off_draw)]
        grid["offset"] = off_draw
    spec = {"shape": shape, "grid": grid, "steps": T, "faces": faces, "key": 0}
    if any(f["kind"] == "bloch" for f in faces.values()):
        spec["bloch_vector"] = [
            float(rng.uniform(-1, 1) * np.pi / (shape[a] * specgen.SPACING)) if faces[f"min_{ax}"]["kind"] == "bloch" else 0.0 for a, ax in enumerate("xyz")
        ]
    m = {"mode": "random", "seed": int(rng.integers(0, 2**31)), "eps_tier": specgen.choice(rng, ["iso", "diag"])}
    if rng.uniform() < 0.6:
        m["mu_tier"] = specgen.choice(rng, ["iso", "diag"])
    if rng.uniform() < 0.4:
        m["sigma_e_tier"] = specgen.choice(rng, ["iso", "diag"])
        m["sigma_e_max"] = float(10 ** rng.uniform(-4, -1.5))  # stored (grid-scaled) values: loss factor c*sigma*eta0/2eps ~ 0.01..3
    spec["materials"] = m
    spec["init_seed"] = int(rng.integers(0, 2**31))
    n_faults = int(rng.integers(0, 4))
    spec["ops"] = [{"op": "crash_restore", "at": int(t)} for t in sorted(set(int(x) for x in rng.integers(1, T, size=n_faults)))]
    return spec


def shrink(spec):
    import copy

    out = specgen.generic_shrinks(spec)
    if spec["steps"] > 2:
        s = copy.deepcopy(spec)
        s["steps"] = max(2, spec["steps"] // 2)
        s["ops"] = [o for o in s["ops"] if o["at"] < s["steps"]]
        out.append(s)
    for a in range(3):
        if spec["shape"][a] > 2 and spec["grid"]["kind"] == "uniform":
            s = copy.deepcopy(spec)
            s["shape"][a] -= 1
            out.append(s)
    return out


def execute(spec):
    from fdsim import scene as sc, driver as dr, oracles as orc

    scn = sc.build_scene(spec)
    shape = tuple(spec["shape"])
    widths = orc.widths_from_spec(spec)
    VE, VH = orc.yee_volumes(widths)
    mats = dr.materials_np(scn.arrays)
    eps3 = orc.expand_diag(mats["inv_permittivities"], shape)
    mu3 = orc.expand_diag(mats["inv_permeabilities"], shape)
    lossy = "electric_conductivity" in mats and bool(np.any(mats["electric_conductivity"] > 0))
    E0, H0 = sc.random_fields(scn, spec["init_seed"], scale=1.0)
    arrays = scn.arrays.aset("fields->E", E0).aset("fields->H", H0)
    st = dr.Stepper(scn, record_detectors=False)
    state = st.state0(arrays)
    crash_at = {o["at"] for o in spec.get("ops", [])}
    viol, stats, resid = [], {"sim_steps": 0, "sim_time_fs": 0.0}, {}
    T = scn.T
    Hprev = np.array(H0)
    U = []
    for n in range(1, T + 1):
        state = st.fwd(state, 1)
        stats["sim_steps"] += 1
        f = dr.fields_np(state)
        U.append(orc.yee_energy(f["E"], Hprev, f["H"], eps3, mu3, VE, VH))
        Hprev = f["H"]
        if n in crash_at:
            snap = dr.snapshot(state)
            del state
            state = dr.restore(snap)  # only the durable copy survives
            stats["fault_crash_restore"] = stats.get("fault_crash_restore", 0) + 1
    stats["sim_time_fs"] = T * scn.dt * 1e15
    U = np.array(U)
    u0 = U[0]
    nontrivial = bool(u0 > 0)
    if not np.all(np.isfinite(U)):
        viol.append({"monitor": "energy_not_finite", "step": int(np.argmax(~np.isfinite(U))) + 1})
    elif lossy:
        inc = (U[1:] - U[:-1]) / u0
        resid["max_increase_rel"] = float(max(0.0, inc.max())) if len(inc) else 0.0
        bad = np.nonzero(inc > 1e-12)[0]
        if len(bad):
            viol.append({"monitor": "energy_increases_lossy", "step": int(bad[0]) + 2, "metric": "rel_increase", "value": float(inc[bad[0]]), "tolerance": 1e-12})
        stats["probe_lossy_dissipated"] = int(U[-1] < U[0] * (1 - 1e-9))
    else:
        dev = np.abs(U - u0) / u0
        resid["max_drift_rel"] = float(dev.max())
        bad = np.nonzero(dev > TOL)[0]
        if len(bad):
            viol.append({"monitor": "energy_not_conserved", "step": int(bad[0]) + 1, "metric": "rel_drift", "value": float(dev[bad[0]]), "tolerance": TOL})
    stats["probe_complex"] = int(np.iscomplexobj(Hprev))
    stats["probe_nonuniform"] = int(spec["grid"]["kind"] == "rect")
    stats["probe_far_from_origin"] = int(any(abs(o) >= 0.05 for o in spec["grid"].get("offset", [0.0])))
    stats["probe_lossy"] = int(lossy)
    stats["probe_magnetic"] = int(np.ndim(mats["inv_permeabilities"]) > 0)
    sig = specgen.scene_signature(spec, lossy, bool(crash_at))
    digest = dr.digest_arrays(dr.fields_np(state)) + ":" + ",".join(f"{k}={dr.sig3(v)}" for k, v in sorted(resid.items())) + f":v{len(viol)}"
    return {"violations": viol, "stats": stats, "residuals": resid, "nontrivial": nontrivial, "signature": sig, "digest": digest}
