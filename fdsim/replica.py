"""Replica-agreement helpers (C08, C09, C10, C11, C38).

A *replica family* is a list of scenes derived from one JSON spec by a stated mapping (axis
relabelling, tiling, storage dtype, grid description, source subsets).  All replicas are built with
the real library and stepped in lockstep by `driver.Stepper`; one replica is additionally pushed
through the real loop (`run_fdtd` / `custom_fdtd_forward`, optionally cut) and must reproduce the
stepped end state.

Material spec used by these checks (``spec["materials"]["mode"] == "tensor_arrays"``):

    {"mode": "tensor_arrays", "seed": int, "eps_tier": "iso|diag|full", "mu_tier": ..|None,
     "sigma_e_tier": "iso|diag"|None, "sigma_h_tier": ..|None,
     "iso_planes": [[axis, index], ...],   # cells of these planes get exactly isotropic eps / mu
     "force_cell": [i, j, k],              # where the 1-cell tier-forcing object is placed
     "tile": [mx, my, mz]}                 # arrays generated for shape/tile and np.tile'd

`lower_spec` turns it into something `scene.build_scene` understands: an isotropic background (so
plane sources are accepted at placement) plus a one-cell object carrying a tensor material that
forces the library to allocate the requested component counts; the per-cell arrays then overwrite
the placed ones (`scene.build_scene(material_arrays=...)`) and sources/detectors are re-applied.
No jax import at module level (generators run in the parent process).
"""
from __future__ import annotations

import copy

import numpy as np

from fdsim import env

COMP = ("Ex", "Ey", "Ez", "Hx", "Hy", "Hz")


def setup():
    """Worker-side bootstrap for replica checks: pinned environment + persistent XLA compile cache.

    Placement executes hundreds of tiny shape-specific eager kernels per replica (measured: 165
    compilations, ~11 s of a 13 s build); the persistent cache (keyed on the HLO, i.e. on the code
    under test, the shapes and the XLA flags) removes the recompilation across runs and processes.
    It never changes what is computed. Disable with VERIF_XLA_CACHE_DIR=off.
    """
    import os

    env.bootstrap()
    d = os.environ.get("VERIF_XLA_CACHE_DIR", "/tmp/fdsim_xla_cache")
    if d.lower() in ("", "0", "off", "none"):
        return
    import jax

    if jax.config.jax_compilation_cache_dir != d:
        os.makedirs(d, exist_ok=True)
        jax.config.update("jax_compilation_cache_dir", d)
        jax.config.update("jax_persistent_cache_min_compile_time_secs", 0.0)
        jax.config.update("jax_persistent_cache_min_entry_size_bytes", -1)
        # No LRU bound: jax's size-bounded cache takes one global file lock per access and rescans the directory on
        # every put; with 8 workers and >20k accumulated entries that made replica checks 5-8x slower. The engine
        # gives every check run its own fresh directory and removes it afterwards, which bounds the size instead.

# ---------------------------------------------------------------- material lowering

_BG = {"permittivity": 2.0, "permeability": 1.5, "electric_conductivity": 0.1, "magnetic_conductivity": 0.1}


def _tier_value(tier, base):
    if tier == "diag":
        return [base, base * 1.25, base * 1.5]
    if tier == "full":
        return [[base * 1.3, 0.1, 0.05], [0.1, base * 1.2, 0.02], [0.05, 0.02, base * 1.1]]
    return base


def lower_spec(spec: dict) -> dict:
    """tensor_arrays material spec -> build_scene spec (isotropic background + tier-forcing cell)."""
    m = spec.get("materials", {})
    if m.get("mode") != "tensor_arrays":
        return spec
    s = copy.deepcopy(spec)
    tiers = {
        "permittivity": m.get("eps_tier") or "iso",
        "permeability": m.get("mu_tier"),
        "electric_conductivity": m.get("sigma_e_tier"),
        "magnetic_conductivity": m.get("sigma_h_tier"),
    }
    bg = {k: _BG[k] for k, t in tiers.items() if t}
    objs = []
    if any(t in ("diag", "full") for t in tiers.values()):
        c = m["force_cell"]
        mat = {k: _tier_value(t, _BG[k]) for k, t in tiers.items() if t}
        objs.append({"kind": "box", "name": "tierforce", "box": [[int(c[a]), int(c[a]) + 1] for a in range(3)], "material": mat, "order": 0})
    # optional dispersive boxes: they only contribute the pole-coefficient arrays (the per-cell eps/mu/sigma arrays are
    # overwritten afterwards), i.e. a random non-dispersive tensor background with Lorentz/Drude poles in some cells
    for i, d in enumerate(m.get("disp_objects", [])):
        mat = {k: _BG[k] for k, t in tiers.items() if t}  # isotropic at placement (plane sources are applied against it)
        mat["dispersion"] = d["dispersion"]
        objs.append({"kind": "box", "name": f"disp{i}", "box": d["box"], "material": mat, "order": 1 + i})
    s["materials"] = {"mode": "objects", "background": bg, "objects": objs}
    return s


def _isotropise(a: np.ndarray, planes) -> np.ndarray:
    """Make a (c,nx,ny,nz) tensor array exactly isotropic on the given planes (value of comp 0)."""
    if a is None or a.shape[0] == 1:
        return a
    a = a.copy()
    for axis, idx in planes:
        sl = [slice(None)] * 3
        sl[axis] = int(idx)
        v = a[(0, *sl)].copy()
        if a.shape[0] == 3:
            for c in range(3):
                a[(c, *sl)] = v
        else:
            for c in range(9):
                a[(c, *sl)] = v if c in (0, 4, 8) else 0.0
    return a


def base_arrays(spec: dict) -> dict:
    """Per-cell material arrays of a tensor_arrays spec (numpy, float64), tiled and isotropised."""
    from fdsim import scene as sc

    m = spec["materials"]
    shape = tuple(int(n) for n in spec["shape"])
    tile = tuple(int(t) for t in m.get("tile", (1, 1, 1)))
    if any(n % t for n, t in zip(shape, tile)):
        raise env.HarnessError(f"shape {shape} not divisible by tile {tile}")
    base_shape = tuple(n // t for n, t in zip(shape, tile))
    ra = sc.random_material_arrays(m, base_shape, np.float64)
    out = {}
    for k, v in ra.items():
        if v is None:
            out[k] = None
            continue
        v = np.tile(v, (1, *tile))
        if k in ("inv_eps", "inv_mu"):
            v = _isotropise(v, m.get("iso_planes", []))
        out[k] = v
    return out


def build(spec: dict, arrays: dict | None = None):
    """Build one replica. `arrays` defaults to `base_arrays(spec)` for tensor_arrays specs."""
    from fdsim import scene as sc

    m = spec.get("materials", {})
    if m.get("mode") == "tensor_arrays":
        if arrays is None:
            arrays = base_arrays(spec)
        return sc.build_scene(lower_spec(spec), material_arrays=arrays)
    return sc.build_scene(spec)


# ---------------------------------------------------------------- cyclic relabelling (C08)


def cyc(a: int, k: int) -> int:
    return (int(a) + k) % 3


def perm_list(v, k):
    """new[(a+k)%3] = old[a] for a length-3 list."""
    out = [None, None, None]
    for a in range(3):
        out[cyc(a, k)] = v[a]
    return out


def perm_spatial(arr: np.ndarray, k: int, lead: int) -> np.ndarray:
    """Relabel the three trailing spatial axes: new axis (a+k)%3 is old axis a."""
    order = [(b - k) % 3 for b in range(3)]
    return np.ascontiguousarray(np.transpose(arr, list(range(lead)) + [lead + o for o in order]))


def perm_vec(arr: np.ndarray, k: int, comp_axis: int = 0) -> np.ndarray:
    """Relabel a vector field (component axis of length 3 at comp_axis, spatial axes last)."""
    idx = [(c - k) % 3 for c in range(3)]
    return perm_spatial(np.take(arr, idx, axis=comp_axis), k, arr.ndim - 3)


def perm_tensor(arr: np.ndarray | None, k: int) -> np.ndarray | None:
    """(1|3|9, nx, ny, nz) material array under the relabelling (rows and columns permute)."""
    if arr is None:
        return None
    c = arr.shape[0]
    if c == 1:
        return perm_spatial(arr, k, 1)
    if c == 3:
        return perm_vec(arr, k)
    idx = [(i - k) % 3 for i in range(3)]
    t = arr.reshape(3, 3, *arr.shape[1:])[idx][:, idx]
    return perm_spatial(t.reshape(9, *arr.shape[1:]), k, 1)


def perm_arrays(ra: dict, k: int) -> dict:
    return {key: perm_tensor(v, k) for key, v in ra.items()}


def perm_component_name(c: str, k: int) -> str:
    return c[0] + "xyz"[cyc("xyz".index(c[1]), k)]


def canonical(components) -> list[str]:
    """Order in which the library stacks the selected components."""
    return [c for c in COMP if c in components]


def perm_spec(spec: dict, k: int) -> dict:
    """Image of a scene spec under the k-fold cyclic relabelling x->y->z->x."""
    if k % 3 == 0:
        return copy.deepcopy(spec)
    s = copy.deepcopy(spec)
    s["shape"] = perm_list(spec["shape"], k)
    g = spec["grid"]
    if g["kind"] == "rect":
        s["grid"] = {"kind": "rect", "edges": perm_list(g["edges"], k)}
    elif g["kind"] == "quasi":
        s["grid"] = {"kind": "quasi", "d": perm_list(g["d"], k)}
    faces = {}
    for face, f in spec.get("faces", {}).items():
        d, ax = face.split("_")
        faces[f"{d}_{'xyz'[cyc('xyz'.index(ax), k)]}"] = copy.deepcopy(f)
    s["faces"] = faces
    if "bloch_vector" in spec:
        s["bloch_vector"] = perm_list(spec["bloch_vector"], k)
    for src in s.get("sources", []):
        src["box"] = perm_list(src["box"], k)
        if "polarization" in src:
            src["polarization"] = cyc(src["polarization"], k)
        for key in ("e_pol", "h_pol"):
            if key in src:
                src[key] = perm_list(src[key], k)
    for det in s.get("detectors", []):
        det["box"] = perm_list(det["box"], k)
        if "components" in det:
            det["components"] = canonical([perm_component_name(c, k) for c in det["components"]])
        if det.get("fixed_propagation_axis") is not None:
            det["fixed_propagation_axis"] = cyc(det["fixed_propagation_axis"], k)
    m = s.get("materials", {})
    if m.get("mode") == "tensor_arrays":
        m["force_cell"] = perm_list(spec["materials"]["force_cell"], k)
        m["iso_planes"] = [[cyc(a, k), i] for a, i in spec["materials"].get("iso_planes", [])]
        if "tile" in m:
            m["tile"] = perm_list(spec["materials"]["tile"], k)
    return s


def perm_fields(fields: dict, k: int) -> dict:
    """Image of a `driver.fields_np` dict (E, H, psi_*/bnd_<face>/i) under the relabelling."""
    out = {}
    for key, v in fields.items():
        if key in ("E", "H"):
            out[key] = perm_vec(v, k)
        elif key.startswith("psi_"):
            nm, bname, i = key.split("/")
            d, ax = bname[len("bnd_"):].split("_")
            out[f"{nm}/bnd_{d}_{'xyz'[cyc('xyz'.index(ax), k)]}/{i}"] = perm_spatial(v, k, 0)
        else:
            raise env.HarnessError(f"perm_fields: unsupported key {key}")
    return out


def perm_detector_record(det: dict, key: str, rec: np.ndarray, k: int) -> np.ndarray:
    """Image of one raw detector record of the base scene (det = base detector spec)."""
    kind = det["kind"]
    red = bool(det.get("reduce", kind == "poynting"))
    if kind in ("field", "phasor"):
        base = canonical(det.get("components", COMP))
        img = canonical([perm_component_name(c, k) for c in base])
        order = [base.index(perm_component_name(c, -k % 3)) for c in img]  # img[j] is the image of base[order[j]]
        comp_axis = 1 if kind == "field" else 2
        rec = np.take(rec, order, axis=comp_axis)
        return rec if red else perm_spatial(rec, k, rec.ndim - 3)
    if kind == "energy":
        return rec if red else perm_spatial(rec, k, rec.ndim - 3)
    if kind == "poynting":
        if det.get("keep_all_components"):
            rec = np.take(rec, [(c - k) % 3 for c in range(3)], axis=1)
        return rec if red else perm_spatial(rec, k, rec.ndim - 3)
    raise env.HarnessError(f"perm_detector_record: {kind}")


# ---------------------------------------------------------------- state helpers


def set_fields(scene, E, H):
    """Arrays of `scene` with the given initial E, H (numpy or jax), cast to the scene's dtypes."""
    import jax.numpy as jnp

    f = scene.arrays.fields
    if not jnp.iscomplexobj(f.E) and (np.iscomplexobj(E) or np.iscomplexobj(H)):
        raise env.HarnessError("complex initial field for a real-valued scene")
    a = scene.arrays.aset("fields->E", jnp.asarray(E, dtype=f.E.dtype))
    return a.aset("fields->H", jnp.asarray(H, dtype=f.H.dtype))


def random_init(scene, seed: int, scale: float = 0.5):
    """(E, H) numpy: random initial fields projected onto the scene's wall conditions."""
    from fdsim import scene as sc

    E, H = sc.random_fields(scene, seed, scale=scale)
    return np.array(E), np.array(H)


def balanced_init(scene, stepper, seed: int, fallback: float = 0.05):
    """Random initial (E, H) whose amplitude matches what the scene's sources build up by the last step.

    A fixed amplitude would drown weak sources (ramped cw / delayed pulses inject 1e-9..1e-1 within
    ten steps) under the tolerance, or the other way round.  The scene is first stepped from zero
    fields for T steps with the already compiled stepper (scouting pass, no comparison), then the
    random field is normalised to the source-driven maximum.  Returns (E, H, scale, scouting steps).
    """
    T = scene.T
    st = stepper.fwd(stepper.state0(scene.arrays), T)
    a = max(float(np.max(np.abs(np.array(st[1].fields.E)))), float(np.max(np.abs(np.array(st[1].fields.H)))))
    E, H = random_init(scene, seed, scale=1.0)
    m = max(float(np.max(np.abs(E))), float(np.max(np.abs(H))))
    scale = a if (np.isfinite(a) and a > 1e-30) else fallback
    if m > 0:
        E, H = E * (scale / m), H * (scale / m)
    return E, H, scale, T


def run_real_loop(scene, arrays, cut, use_run_fdtd: bool):
    """Push `arrays` through the library's own loop; returns (final state, fired fault names).

    use_run_fdtd: `fdtdx.run_fdtd` (resets the fields: only valid for zero initial fields);
    otherwise `custom_fdtd_forward(reset_container=False)` in one or two segments (cut = None | int).
    """
    import fdtdx
    from fdtdx.fdtd.fdtd import custom_fdtd_forward

    T = scene.T
    fired = ["real_loop_replica"]
    if use_run_fdtd:
        return fdtdx.run_fdtd(arrays, scene.objects, scene.config, scene.key, show_progress=False), fired + ["run_fdtd"]

    def seg(arr, a, b):
        return custom_fdtd_forward(arr, scene.objects, scene.config, scene.key, reset_container=False, record_detectors=True, start_time=a, end_time=b, show_progress=False)

    # detector states must start from zero; fields keep the supplied initial values
    arrays = arrays.aset("detector_states", {k: {k2: v2 * 0 for k2, v2 in v.items()} for k, v in arrays.detector_states.items()})
    if cut is None or cut <= 0 or cut >= T:
        return seg(arrays, 0, T), fired + ["custom_forward"]
    _, mid = seg(arrays, 0, int(cut))
    return seg(mid, int(cut), T), fired + ["custom_forward", "cut_resume"]


class Monitors:
    """Collects per-step residuals; reports only the first violating step per monitor."""

    def __init__(self):
        self.violations = []
        self.resid = {}
        self._fired = set()

    def check(self, monitor: str, step: int, value: float, tol: float, **extra):
        v = value if np.isfinite(value) else 1e300
        self.resid[monitor] = max(self.resid.get(monitor, 0.0), v)
        if not (value <= tol) and monitor not in self._fired:
            self._fired.add(monitor)
            self.violations.append({"monitor": monitor, "step": int(step), "metric": "rel_diff", "value": float(v), "tolerance": tol, **extra})

    def dicts(self, monitor: str, step: int, a: dict, b: dict, tol: float, floors: dict | float | None = None, **extra):
        """Worst per-array relative difference; array k is scaled by max(max|a_k|, max|b_k|, floor_k).

        floors (one number or per key) keep arrays that are zero up to round-off (a component that
        vanishes by cancellation) from being judged relative to their own noise: they are judged on
        an absolute scale derived from the run's field maximum instead (see `field_scale`).
        """
        from fdsim import driver as dr

        worst, wk = 0.0, ""
        for k in sorted(set(a) | set(b)):
            if k not in a or k not in b:
                worst, wk = float("inf"), k
                break
            fl = floors.get(k, 0.0) if isinstance(floors, dict) else (floors or 0.0)
            m = max(_amax(a[k]), _amax(b[k]))
            sc = max(m, fl) if np.isfinite(m) else None
            r = dr.rel_diff(a[k], b[k], sc if sc else None)
            if r > worst:
                worst, wk = r, k
        self.check(monitor, step, worst, tol, key=wk, **extra)
        return worst


FLOOR = 1e-3  # arrays smaller than this fraction of the run's field maximum are compared on the absolute scale FLOOR*max


def _amax(x) -> float:
    x = np.asarray(x)
    return float(np.max(np.abs(x))) if x.size else 0.0


def field_scale(*field_dicts) -> float:
    """max |E|, |H| over the given `driver.fields_np` dicts (non-finite values are ignored here; rel_diff reports them)."""
    g = 0.0
    for f in field_dicts:
        for k in ("E", "H"):
            m = _amax(f[k])
            if np.isfinite(m):
                g = max(g, m)
    return g


def box_measure(spec: dict, box, drop_axis: int | None = None) -> float:
    """Physical volume of a cell box (or its face area normal to drop_axis) on the spec's grid."""
    g = spec["grid"]
    out = 1.0
    for a in range(3):
        if a == drop_axis:
            continue
        lo, hi = int(box[a][0]), int(box[a][1])
        if g["kind"] == "rect":
            out *= float(g["edges"][a][hi] - g["edges"][a][lo])
        elif g["kind"] == "quasi":
            out *= (hi - lo) * g["d"][a]
        else:
            out *= (hi - lo) * g["spacing"]
    return out


def record_floors(spec: dict, g_run: float, records: dict) -> dict:
    """Absolute comparison floors for raw detector records given the running field maximum g_run.

    field records are field samples or volume means (<= g_run); Poynting records are differences of
    products of two field samples (reduced: times the face area) and can vanish by cancellation;
    energy records are sums of non-negative terms and phasor records short (<= 12 term) sums, which
    do not cancel to round-off, so they keep their own scale.
    """
    dets = {d["name"]: d for d in spec.get("detectors", [])}
    out = {}
    for key in records:
        d = dets[key.split("/")[0]]
        if d["kind"] == "field":
            out[key] = FLOOR * g_run
        elif d["kind"] == "poynting":
            ax = [a for a in range(3) if d["box"][a][1] - d["box"][a][0] == 1]
            area = box_measure(spec, d["box"], ax[0]) if (d.get("reduce", True) and ax) else 1.0
            out[key] = FLOOR * g_run * g_run * area
    return out


DOCUMENTED_REJECTIONS = (
    "within anisotropic materials are not supported",  # plane source on an anisotropic plane
    "requires an even cell count",  # QuasiUniformGrid.resolve
)


def rejected(e: Exception) -> dict:
    """Result for a scene the library rejects with a *documented* message; anything else propagates."""
    if not any(p in str(e) for p in DOCUMENTED_REJECTIONS):
        raise e
    return {"rejected": True, "nontrivial": False, "violations": [], "stats": {"rejected": 1}, "residuals": {}, "signature": "", "digest": "rejected:" + type(e).__name__}


def finish(mon: Monitors, stats: dict, nontrivial: bool, signature: str, final_fields: dict) -> dict:
    from fdsim import driver as dr

    digest = dr.digest_arrays(final_fields) + ":" + ",".join(f"{k}={dr.sig3(v)}" for k, v in sorted(mon.resid.items())) + f":v{len(mon.violations)}"
    return {"violations": mon.violations, "stats": stats, "residuals": dict(mon.resid), "nontrivial": bool(nontrivial), "signature": signature, "digest": digest}


# ---------------------------------------------------------------- generator pieces (no jax)


def rand_tensor_materials(r, shape, tiers=("iso", "diag", "full"), mu=True, sigma_e=True, sigma_h=True, plane_sources=()):
    """Random tensor_arrays material spec. plane_sources: [(axis, index)] planes to keep isotropic."""
    from fdsim import specgen

    m = {"mode": "tensor_arrays", "seed": int(r.integers(0, 2**31)), "eps_tier": specgen.choice(r, list(tiers))}
    if mu and r.uniform() < 0.5:
        m["mu_tier"] = specgen.choice(r, list(tiers))
    if sigma_e and r.uniform() < 0.4:
        m["sigma_e_tier"] = specgen.choice(r, ["iso", "diag"])
    if sigma_h and m.get("mu_tier") and r.uniform() < 0.3:
        m["sigma_h_tier"] = specgen.choice(r, ["iso", "diag"])
    m["iso_planes"] = [[int(a), int(i)] for a, i in plane_sources]
    cell = []
    for a in range(3):
        banned = {int(i) for ax, i in plane_sources if ax == a}
        ok = [i for i in range(shape[a]) if i not in banned]
        cell.append(int(ok[int(r.integers(0, len(ok)))]))
    m["force_cell"] = cell
    return m


def add_dispersive_boxes(r, spec: dict, p: float = 0.35, per_axis: bool = True):
    """With probability p give a tensor_arrays spec 1-2 dispersive boxes (in place). Draws from r either way."""
    from fdsim import specgen

    use = bool(r.uniform() < p)
    n = int(r.integers(1, 3))
    boxes = [{"box": specgen.rand_box(r, spec["shape"], min_size=2), "dispersion": specgen.rand_dispersion(r, p_per_axis=0.35 if per_axis else 0.0)} for _ in range(n)]
    if use:
        spec["materials"]["disp_objects"] = boxes
    return use


def plane_source_planes(sources) -> list[tuple[int, int]]:
    out = []
    for s in sources:
        if s["kind"] in ("uniform_plane", "gaussian_plane"):
            ax = [a for a in range(3) if s["box"][a][1] - s["box"][a][0] == 1]
            # the library takes the FIRST unit axis as propagation axis; generators keep exactly one
            out.append((ax[0], int(s["box"][ax[0]][0])))
    return out


def shrinks(spec: dict, min_sources: int = 0, min_detectors: int = 0, keep_pairs: bool = False) -> list[dict]:
    """One-step simplifications for replica-family specs (tensor_arrays materials stay consistent)."""
    out = []

    def var(fn):
        s = copy.deepcopy(spec)
        if fn(s) is not False:
            out.append(s)

    for target in sorted({max(1, spec["steps"] // 2), spec["steps"] - 1}):
        if 1 <= target < spec["steps"]:
            def fewer(s, target=target):
                s["steps"] = target
                lp = s.get("loop")
                if lp and lp.get("cut") is not None:
                    lp["cut"] = max(1, min(lp["cut"], target - 1)) if target > 1 else None
            var(fewer)
    for i in range(len(spec.get("detectors", []))):
        if len(spec["detectors"]) > min_detectors:
            var(lambda s, i=i: s["detectors"].pop(i))
    for i in range(len(spec.get("sources", []))):
        if len(spec["sources"]) > min_sources:
            def drop(s, i=i):
                s["sources"].pop(i)
                for key in ("factors",):
                    if key in s:
                        s[key].pop(i)
            var(drop)
    for key in ("detectors", "sources"):
        for i, d in enumerate(spec.get(key, [])):
            if d.get("switch"):
                var(lambda s, i=i, key=key: s[key][i].pop("switch"))
    if spec.get("init_seed") is not None and not spec.get("_needs_init"):
        var(lambda s: s.__setitem__("init_seed", None))
    if (spec.get("loop") or {}).get("cut") is not None:
        var(lambda s: s["loop"].__setitem__("cut", None))
    for f, fs in spec.get("faces", {}).items():
        if fs["kind"] in ("pec", "pmc", "pml"):
            var(lambda s, f=f: s["faces"].__setitem__(f, {"kind": "none"}))
        if fs["kind"] in ("periodic", "bloch") and f.startswith("min_") and not keep_pairs:
            def unpair(s, f=f):
                s["faces"][f] = {"kind": "none"}
                s["faces"]["max_" + f[4:]] = {"kind": "none"}
                if "bloch_vector" in s:
                    s["bloch_vector"]["xyz".index(f[4:])] = 0.0
            var(unpair)
    if spec["grid"]["kind"] == "rect":
        from fdsim import specgen

        var(lambda s: s.__setitem__("grid", {"kind": "uniform", "spacing": specgen.SPACING}))
    m = spec.get("materials", {})
    if m.get("mode") == "tensor_arrays":
        for k in ("sigma_h_tier", "sigma_e_tier"):
            if m.get(k):
                var(lambda s, k=k: s["materials"].pop(k))
        if m.get("mu_tier"):
            def nomu(s):
                s["materials"].pop("mu_tier")
                s["materials"].pop("sigma_h_tier", None)
            var(nomu)
        for k in ("eps_tier", "mu_tier"):
            if m.get(k) == "full":
                var(lambda s, k=k: s["materials"].__setitem__(k, "diag"))
            if m.get(k) == "diag":
                var(lambda s, k=k: s["materials"].__setitem__(k, "iso"))
    return out


def rand_scene(r, T=(5, 10), shape=(4, 6), even=False, pml=(2, 3), bloch_p=0.0, p_nonuniform=0.0, n_sources=(1, 2), max_plane=1,
               n_detectors=(1, 3), detector_kinds=("field", "energy", "poynting", "phasor"), exact=None, switches=True,
               kinds_single=("pec", "pmc", "none"), kinds_pair=("periodic",), tiers=("iso", "diag", "full"), spacing=None):
    """Common scene generator of the replica checks (tensor_arrays materials, <= max_plane plane sources)."""
    from fdsim import specgen

    Tn = int(r.integers(T[0], T[1] + 1))
    shp = specgen.rand_shape(r, shape[0], shape[1])
    faces = specgen.rand_faces(r, kinds_pair=kinds_pair, kinds_single=kinds_single, pml=pml, bloch=bool(r.uniform() < bloch_p))
    for a, ax in enumerate("xyz"):
        t = sum(faces[f"{d}_{ax}"].get("thickness", 0) for d in ("min", "max") if faces[f"{d}_{ax}"]["kind"] == "pml")
        if shp[a] - t < 3:
            shp[a] = t + 3
        if even and shp[a] % 2:
            shp[a] += 1
    grid = specgen.rand_grid(r, shp, p_nonuniform)
    if spacing is not None and grid["kind"] == "uniform":
        grid["spacing"] = spacing
    spec = {"shape": shp, "grid": grid, "steps": Tn, "faces": faces, "key": int(r.integers(0, 2**31))}
    if any(f["kind"] == "bloch" for f in faces.values()):
        spec["bloch_vector"] = [float(r.uniform(-1, 1) * np.pi / (shp[a] * specgen.SPACING)) if faces[f"min_{ax}"]["kind"] == "bloch" else 0.0 for a, ax in enumerate("xyz")]
    inner = specgen.inner_region(shp, faces)
    srcs, planes = [], 0
    for i in range(int(r.integers(n_sources[0], n_sources[1] + 1))):
        k = specgen.choice(r, ["dipole", "uniform_plane", "gaussian_plane"])
        s = None
        if k != "dipole" and planes < max_plane:
            s = specgen.rand_plane_source(r, f"s{i}", shp, inner, Tn, kind=k, allow_switch=switches)
        if s is None:
            s = specgen.rand_dipole(r, f"s{i}", shp, inner, Tn, allow_switch=switches)
        else:
            planes += 1
        # a source that is (almost) never on makes the run trivial: keep only switches with >= 3 active steps
        if s.get("switch") and sum(specgen.switch_on_list(s["switch"], Tn)) < 3:
            s.pop("switch")
        srcs.append(s)
    spec["sources"] = srcs
    dets = []
    for i in range(int(r.integers(n_detectors[0], n_detectors[1] + 1))):
        d = specgen.rand_detector(r, f"d{i}", shp, Tn, kinds=detector_kinds, switch=switches)
        if exact is not None:
            d["exact"] = bool(exact)
        dets.append(d)
    spec["detectors"] = dets
    spec["materials"] = rand_tensor_materials(r, shp, tiers=tiers, plane_sources=plane_source_planes(srcs))
    return spec


def common_probes(spec: dict) -> dict:
    from fdsim import specgen

    m = spec.get("materials", {})
    tiers = [m.get("eps_tier"), m.get("mu_tier")]
    kinds = specgen.face_kinds(spec.get("faces", {}))
    st = {
        "probe_full_tensor": int("full" in tiers),
        "probe_diag_tensor": int("diag" in tiers),
        "probe_magnetic": int(bool(m.get("mu_tier"))),
        "probe_conductive": int(bool(m.get("sigma_e_tier") or m.get("sigma_h_tier"))),
        "probe_nonuniform": int(spec["grid"]["kind"] == "rect"),
        "probe_pml": int("pml" in kinds),
        "probe_periodic": int("periodic" in kinds),
        "probe_bloch": int("bloch" in kinds),
        "probe_pec": int("pec" in kinds),
        "probe_pmc": int("pmc" in kinds),
        "probe_plane_source": int(any(s["kind"] == "uniform_plane" for s in spec.get("sources", []))),
        "probe_gaussian_source": int(any(s["kind"] == "gaussian_plane" for s in spec.get("sources", []))),
        "probe_dipole": int(any(s["kind"] == "dipole" and s.get("source_type", "electric") == "electric" for s in spec.get("sources", []))),
        "probe_magnetic_dipole": int(any(s["kind"] == "dipole" and s.get("source_type") == "magnetic" for s in spec.get("sources", []))),
        "probe_init_fields": int(spec.get("init_seed") is not None),
    }
    for k in ("field", "energy", "poynting", "phasor"):
        st[f"probe_det_{k}"] = int(any(d["kind"] == k for d in spec.get("detectors", [])))
    st["probe_det_exact"] = int(any(d.get("exact", True) for d in spec.get("detectors", [])))
    return st


def count_steps(stats: dict, n: int, dt: float):
    stats["sim_steps"] = stats.get("sim_steps", 0) + int(n)
    stats["sim_time_fs"] = stats.get("sim_time_fs", 0.0) + n * dt * 1e15


def loop_check(mon: Monitors, stats: dict, scene, arrays, stepped_state, lp: dict, zero_init: bool, tol: float, replica):
    """Run one replica through the library's loop and compare with its stepped end state."""
    from fdsim import driver as dr

    T = scene.T
    use_run = zero_init and lp.get("cut") is None
    final, fired = run_real_loop(scene, arrays, lp.get("cut"), use_run)
    for f in fired:
        stats["fault_" + f] = stats.get("fault_" + f, 0) + 1
    count_steps(stats, T, scene.dt)
    g = field_scale(dr.fields_np(stepped_state))
    mon.dicts("loop_vs_stepped", T - 1, {f"f/{k}": v for k, v in dr.fields_np(stepped_state).items()}, {f"f/{k}": v for k, v in dr.fields_np(final).items()}, tol, floors=FLOOR * g, replica=replica)
    mon.dicts("loop_vs_stepped", T - 1, dr.detectors_np(stepped_state), dr.detectors_np(final), tol, replica=replica)
    if int(final[0]) != T:
        mon.violations.append({"monitor": "step_count", "step": T - 1, "metric": "steps", "value": int(final[0]), "tolerance": T})
    return fired
