#!/usr/bin/env python
"""Regenerate MANIFEST.json from the check modules present in checks/ plus the N/A table."""
import glob
import importlib
import json
import os
import sys

ROOT = os.path.dirname(os.path.dirname(os.path.abspath(__file__)))
sys.path.insert(0, ROOT)

NA = {
    "C19": "nearest-index lookup is a stateless elementwise function of one input; no clock, order, history or fault to schedule (property-based testing territory)",
    "C20": "tanh / subpixel-smoothed projections are stateless pointwise filters; nothing for a scheduler or fault injector to act on",
    "C21": "symmetry transforms are stateless array maps of one input",
    "C22": "Gaussian smoothing is a stateless convolution of one input",
    "C23": "connectivity clean-up is a pure function of one binary array; its internal fixed-round flood fill exposes no seam the simulator could schedule",
    "C24": "median filter / pillar argmin are stateless functions of one input",
    "C25": "brush constraint is a deterministic pure function; its loop has no external schedule, time or fault",
    "C31": "export then import is a stateless composition of two pure calls; nothing happens between them that a simulator could reorder or interrupt",
    "C32": "unfolding maps are stateless index/parity maps of one array",
    "C34": "symmetric clipping is per-object arithmetic at placement, independent of order, time and history",
    "C35": "pole-coefficient formulas are closed-form functions of their parameters",
    "C37": "grid helpers are stateless arithmetic on edge arrays",
    "C39": "material normalisation / classification is stateless",
    "C41": "wave descriptions and temporal profiles are pointwise functions of time with no state",
    "C43": "rasterisation is a geometric predicate evaluated per cell, stateless",
}

SETUP = "/venv/bin/python -c \"import hypothesis, numpy\" && /venv/bin/python /verif/tools/selfcheck.py"


def main():
    checks = []
    claimed = set()
    for path in sorted(glob.glob(os.path.join(ROOT, "checks", "c[0-9]*.py"))):
        name = os.path.basename(path)[:-3]
        mod = importlib.import_module(f"checks.{name}")
        pid = mod.PROPERTY
        claimed.add(pid)
        checks.append(
            {
                "property_id": pid,
                "quick_cmd": f"/venv/bin/python /verif/run_check.py {pid} --tier quick",
                "thorough_cmd": f"/venv/bin/python /verif/run_check.py {pid} --tier thorough",
                "evidence_file": f"/verif/evidence/{pid}.json",
                "replay_cmd_template": "/venv/bin/python /verif/run_check.py " + pid + " --replay {path}",
                "engine": "fdsim",
                "level_claimed": {"category": mod.LEVEL, "text": mod.LEVEL_TEXT, "design_ref": f"DESIGN.md section 7 ({pid})"},
                "level_note": mod.LEVEL_NOTE,
                "technique": mod.TECHNIQUE,
            }
        )
    props = [json.loads(l)["id"] for l in open(os.path.join(ROOT, "properties.jsonl"))]
    na = []
    for pid in props:
        if pid in claimed:
            continue
        reason = NA.get(pid, "check not built yet in this round (planned; see DESIGN.md section 7)")
        na.append({"property_id": pid, "reason": reason})
    man = {
        "version": 1,
        "setup_cmd": SETUP,
        "hooks": {
            "guard": "FDTDX_VERIF",
            "enable": "no hooks in /repo are needed: every seam is public API (DESIGN.md section 3.2); checks import /repo/src via VERIF_REPO_SRC",
            "baseline_off_cmd": "cd /repo && /venv/bin/python -m pytest -ra -q -p no:cacheprovider --timeout=900 --continue-on-collection-errors",
            "source_commits": [],
            "add_only": True,
        },
        "engines": [
            {
                "name": "fdsim",
                "path": "/verif/fdsim",
                "serves_properties": sorted(claimed),
                "kind_free_text": "deterministic simulator: owns the solver time loop (one real step per simulated step), seeded op/fault schedules (cut/resume, crash-at-tick, host round trip, reset, strategy switch, permutation, duplicate apply, dropped recorder writes, device counts), NumPy reference oracles, replica lock-step, ddmin-style shrinker, replay files",
            }
        ],
        "checks": checks,
        "not_applicable": na,
        "notes": "One integer (VERIF_SEED) decides every run: run_seed = blake2(VERIF_SEED, property, run_index). Exit 2 = HARNESS-ERROR (neither pass nor violation). "
                 "No hook in /repo: every seam is public API. /repo carries nine unguarded 'fix:' commits (genuine defects found by the checks, listed as status=fixed in "
                 "/verif/known_findings.json and in DESIGN.md section 10); findings that are recorded rather than repaired are status=known there and are matched by "
                 "predicates in the check modules. Seeded changes used to test the machinery: /verif/seeded/<id>/ (DESIGN.md section 13).",
    }
    with open(os.path.join(ROOT, "MANIFEST.json"), "w") as f:
        json.dump(man, f, indent=1)
    print(f"MANIFEST.json: {len(checks)} checks, {len(na)} not_applicable")


if __name__ == "__main__":
    main()
