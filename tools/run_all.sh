#!/bin/bash
# Run every registered quick (or $1=thorough) check sequentially; one summary line per check.
TIER=${1:-quick}
cd /verif
for c in $(/venv/bin/python -c "import json;print(' '.join(x['property_id'] for x in json.load(open('MANIFEST.json'))['checks']))"); do
  t0=$(date +%s)
  /venv/bin/python run_check.py $c --tier $TIER > /verif/.logs/$c.$TIER.log 2>&1
  rc=$?
  echo "$c rc=$rc wall=$(( $(date +%s) - t0 ))s known=$(grep -c '^KNOWN-FINDING' /verif/.logs/$c.$TIER.log) viol=$(grep -c '^VIOLATION' /verif/.logs/$c.$TIER.log) harness=$(grep -c '^HARNESS-ERROR' /verif/.logs/$c.$TIER.log)"
done
