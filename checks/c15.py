"""C15 — detectors record the co-located fields of their region.

The driver keeps the trajectory (E^n and both H half steps) of every simulated step; an independent
NumPy co-location (oracles.colocate) of the full padded domain, restricted to the detector box, must
equal the record of that step - for boxes that are interior, touch faces / edges / corners, or span the
whole domain, under every boundary kind, on uniform and non-uniform grids.
"""
from __future__ import annotations

import numpy as np

from fdsim import specgen

PROPERTY = "C15"
LEVEL = "exploration"
RUNS = {"quick": 28, "thorough": 600}
RULE = (
    "seeded scenes: faces from {periodic, PEC, PMC, none, PML}; one run in four reduced by config.symmetry (electric or magnetic plane) on one axis; uniform or non-uniform grid; random iso materials; random initial fields "
    "plus 0-1 dipole; 3-5 field detectors per scene whose boxes are drawn from classes {interior, face contact, edge, corner, whole domain, "
    "single cell, slab}; exact (co-located) and raw recording; random component subsets and schedules. non-trivial = a non-zero record was "
    "compared; distinct = scene signature x set of box classes x exact flags"
)
REAL = ["place_objects", "forward", "update_detector_states (interior fast path and edge fallback)", "interpolate_fields", "FieldDetector"]
STUB = ["durable storage = host numpy copy"]
ASSUMPTIONS = [
    "float64, tolerance 1e-12 relative to the trajectory max",
    "non-uniform co-location = linear interpolation between cell centres with w_-1 := w_0 (as documented)",
    "electric symmetry plane: halo = mirror image by parity (tangential E / normal H odd and paired -1<->+1, normal E / tangential H even and paired -1<->0), re-derived in oracles.pad_halo; magnetic plane: zero halo",
]
TECHNIQUE = "deterministic simulation: per-step record check against an independent co-location of the driver's trajectory"
LEVEL_TEXT = "Seeded exploration; every active step of every detector is compared with the NumPy co-location oracle; box classes cover every kind of edge contact."
LEVEL_NOTE = "float64 CPU; grids <= 9^3, T <= 8; zero, periodic and symmetry-mirror halos (one run in four uses config.symmetry)"
COMP = {"Ex": ("E", 0), "Ey": ("E", 1), "Ez": ("E", 2), "Hx": ("H", 0), "Hy": ("H", 1), "Hz": ("H", 2)}
BOX_CLASSES = ("interior", "face", "edge", "corner", "whole", "cell", "slab")


def _box(rng, shape, cls):
    n = shape
    if cls == "whole":
        return [[0, n[a]] for a in range(3)]
    if cls == "interior":
        b = []
        for a in range(3):
            if n[a] < 3:
                b.append([0, n[a]])
                continue
            lo = int(rng.integers(1, n[a] - 1))
            hi = int(rng.integers(lo + 1, n[a]))
            b.append([lo, hi])
        return b
    if cls == "cell":
        p = [int(rng.integers(0, n[a])) for a in range(3)]
        return [[p[a], p[a] + 1] for a in range(3)]
    if cls == "slab":
        a0 = int(rng.integers(0, 3))
        b = [[0, n[a]] for a in range(3)]
        p = int(rng.integers(0, n[a0]))
        b[a0] = [p, p + 1]
        return b
    k = {"face": 1, "edge": 2, "corner": 3}[cls]
    axes = set(int(x) for x in rng.choice(3, size=k, replace=False))
    b = []
    for a in range(3):
        size = int(rng.integers(1, max(2, n[a])))
        if a in axes:
            lo = 0 if rng.uniform() < 0.5 else n[a] - size
        else:
            lo = int(rng.integers(0, n[a] - size + 1))
        b.append([lo, lo + size])
    return b


def generate(rng, tier, index):
    T = int(rng.integers(2, 9))
    faces = specgen.rand_faces(rng, kinds_pair=("periodic",), kinds_single=("pec", "pmc", "none"), pml=(2, 3))
    shape = specgen.rand_shape(rng, 3, 8)
    # one run in four is placed with config.symmetry on one, two or three axes (electric plane: mirror halo; magnetic plane:
    # zero halo; two electric planes share an edge whose halo is the double mirror); `shape` is then the reduced (kept
    # upper-half) shape and the spec carries the doubled one
    sym_axes = []
    if index % 4 == 3:
        n_sym = int(specgen.choice(rng, [1, 1, 2, 2, 3]))
        sym_axes = sorted(int(x) for x in rng.choice(3, size=n_sym, replace=False))
        # the co-location stencil averages backwards only along x and y, so the edge shared by an x- and a y-plane is the
        # one place where a doubly mirrored halo cell is read (by H_z): make that pair the usual two-plane case
        if n_sym == 2 and rng.uniform() < 0.6:
            sym_axes = [0, 1]
    sym_walls = {a: (-1 if rng.uniform() < 0.8 else 1) for a in sym_axes}
    if index % 8 == 7:  # every eighth run is the two-electric-planes-on-x-and-y case, whatever was drawn
        sym_axes, sym_walls = [0, 1], {0: -1, 1: -1}
    for a in sym_axes:
        ax = "xyz"[a]
        faces[f"min_{ax}"] = {"kind": "none"}
        k = specgen.choice(rng, ["pec", "pmc", "none", "pml"])
        faces[f"max_{ax}"] = {"kind": k, **({"thickness": 2} if k == "pml" else {})}
    for a, ax in enumerate("xyz"):
        t = sum(faces[f"{d}_{ax}"].get("thickness", 0) for d in ("min", "max"))
        shape[a] = max(shape[a], t + 2)
    grid = specgen.rand_grid(rng, shape, 0.5)
    full_shape = list(shape)
    for a in sym_axes:
        full_shape[a] = 2 * shape[a]
        if grid["kind"] == "rect":  # mirror-symmetric widths about the plane
            w = np.diff(np.asarray(grid["edges"][a]))
            w = np.concatenate([w[::-1], w])
            e = np.concatenate([[0.0], np.cumsum(w)])
            grid["edges"][a] = [float(x) for x in (e - e[-1] / 2)]
    spec = {"shape": full_shape, "grid": grid, "steps": T, "faces": faces, "key": int(rng.integers(0, 2**31))}
    if sym_axes:
        spec["symmetry"] = [sym_walls.get(a, 0) for a in range(3)]
    elif rng.uniform() < 0.3:
        # complex-valued storage with genuinely complex random fields: co-location is linear, so the record is the co-location of
        # the complex field (field detectors log with a complex dtype)
        spec["complex"] = True
    spec["materials"] = {"mode": "random", "seed": int(rng.integers(0, 2**31)), "eps_tier": "iso"}
    dip_region = specgen.inner_region(shape, faces)
    for a in sym_axes:
        if dip_region[a][1] - dip_region[a][0] > 1:
            dip_region[a][0] += 1  # the library rejects a dipole sitting on the symmetry plane
    dip = specgen.rand_dipole(rng, "s0", shape, dip_region, T)
    spec["sources"] = [dip] if rng.uniform() < 0.5 else []
    dets = []
    classes = [specgen.choice(rng, list(BOX_CLASSES)) for _ in range(int(rng.integers(3, 6)))]
    if len(sym_axes) >= 2:
        classes[0] = "whole"  # always one detector that touches every symmetry plane and their shared edges
    for i, cls in enumerate(classes):
        d = {"kind": "field", "name": f"d{i}", "box": _box(rng, shape, cls), "box_class": cls, "exact": bool(rng.uniform() < 0.75), "components": specgen.rand_components(rng), "reduce": False}
        if len(sym_axes) >= 2 and i == 0:
            d["exact"], d["components"] = True, list(specgen.ALL_COMPONENTS)
        if spec.get("complex"):
            d["complex_dtype"] = True
        sw = specgen.rand_switch(rng, T, p_default=0.5, need_active=True)
        if sw:
            d["switch"] = sw
        dets.append(d)
    for a in sym_axes:  # boxes were drawn in reduced coordinates: shift them into the kept upper half of the full domain
        n = shape[a]
        for o in dets + spec["sources"]:
            o["box"][a] = [o["box"][a][0] + n, o["box"][a][1] + n]
    spec["detectors"] = dets
    spec["init_seed"] = int(rng.integers(0, 2**31))
    spec["_min_detectors"] = 1
    return spec


def shrink(spec):
    import copy

    out = specgen.generic_shrinks(spec)
    if spec["steps"] > 1:
        s = copy.deepcopy(spec)
        s["steps"] -= 1
        out.append(s)
    for i, d in enumerate(spec["detectors"]):
        if len(d["components"]) > 1:
            for c in d["components"]:
                s = copy.deepcopy(spec)
                s["detectors"][i]["components"] = [c]
                out.append(s)
    return out


def execute(spec):
    from fdsim import scene as sc, driver as dr, oracles as orc
    from checks.c14 import rule_on_list, _unit_switch

    try:
        scn = sc.build_scene(spec)
    except ValueError as e:
        if "symmetry plane" in str(e):  # documented rejection (a source on the plane)
            return {"rejected": True, "nontrivial": False, "stats": {"rejected": 1}, "digest": "rejected:symmetry-plane"}
        raise
    T = scn.T
    widths = orc.widths_from_spec(spec)
    sym = list(spec.get("symmetry", (0, 0, 0)))
    shift = [0, 0, 0]
    for a in range(3):
        if sym[a] != 0:  # the library keeps the upper half: widths and detector boxes move to reduced coordinates
            shift[a] = spec["shape"][a] // 2
            widths[a] = widths[a][shift[a]:]
    if tuple(scn.arrays.fields.E.shape[1:]) != tuple(len(w) for w in widths):
        from fdsim import env

        raise env.HarnessError(f"reduced shape {scn.arrays.fields.E.shape} vs oracle widths {[len(w) for w in widths]}")
    mirror = {a: sym[a] for a in range(3) if sym[a] != 0}
    wrap = tuple(spec["faces"].get(f"min_{ax}", {"kind": "none"})["kind"] in ("periodic", "bloch") for ax in "xyz")
    E0, H0 = sc.random_fields(scn, spec["init_seed"], scale=1.0)
    arrays = scn.arrays.aset("fields->E", E0).aset("fields->H", H0)
    st = dr.Stepper(scn)
    state = st.state0(arrays)
    viol, stats, resid = [], {"sim_steps": T, "sim_time_fs": T * scn.dt * 1e15}, {"record": 0.0}
    recs = []  # per step: (E_col, H_col, E_raw, H_raw)
    Hprev = np.array(H0)
    scale = 0.0
    for t in range(T):
        state = st.fwd(state, 1)
        f = dr.fields_np(state)
        Hc = 0.5 * (Hprev + f["H"])
        Ecol, Hcol = orc.colocate(orc.pad_halo(f["E"], wrap, mirror, "E"), orc.pad_halo(Hc, wrap, mirror, "H"), widths)
        recs.append((Ecol, Hcol, f["E"], f["H"]))
        scale = max(scale, float(np.max(np.abs(f["E"]))), float(np.max(np.abs(f["H"]))))
        Hprev = f["H"]
    dets = dr.detectors_np(state)
    checked = 0
    for d in spec["detectors"]:
        on = rule_on_list(_unit_switch(d.get("switch")), T)
        active = [t for t in range(T) if on[t]]
        rec = dets[f"{d['name']}/fields"]
        if rec.shape[0] != len(active):
            viol.append({"monitor": "record_count", "detector": d["name"], "got": int(rec.shape[0]), "want": len(active)})
            continue
        box = tuple(slice(a - sh_, b - sh_) for (a, b), sh_ in zip(d["box"], shift))
        for j, t in enumerate(active):
            Ecol, Hcol, Eraw, Hraw = recs[t]
            srcE, srcH = (Ecol, Hcol) if d["exact"] else (Eraw, Hraw)
            want = np.stack([(srcE if COMP[c][0] == "E" else srcH)[COMP[c][1]][box] for c in d["components"]])
            rd = dr.rel_diff(want, rec[j], scale)
            resid["record"] = max(resid["record"], rd if np.isfinite(rd) else 1e300)
            if not (rd <= 1e-12):
                diff = np.abs(want - rec[j])
                w = [int(x) for x in np.unravel_index(int(np.argmax(diff)), diff.shape)]
                viol.append({"monitor": "colocated_record_mismatch" if d["exact"] else "raw_record_mismatch", "detector": d["name"], "box_class": d.get("box_class"),
                             "step": t, "component": d["components"][w[0]], "cell_in_box": w[1:], "metric": "rel_diff", "value": rd, "tolerance": 1e-12})
                break
            checked += 1
    grid_shape = [len(w) for w in widths]
    for d in spec["detectors"]:
        interior = all(lo - shift[a] >= 1 and hi - shift[a] <= grid_shape[a] - 1 for a, (lo, hi) in enumerate(d["box"]))
        if d["exact"] and any(sym[a] == -1 and d["box"][a][0] == shift[a] for a in range(3)):
            stats["probe_electric_mirror_halo_read"] = stats.get("probe_electric_mirror_halo_read", 0) + 1
        if d["exact"] and any(sym[a] == 1 and d["box"][a][0] == shift[a] for a in range(3)):
            stats["probe_magnetic_plane_zero_halo_read"] = stats.get("probe_magnetic_plane_zero_halo_read", 0) + 1
        k = "probe_exact_interior_path" if (d["exact"] and interior) else "probe_exact_edge_path" if d["exact"] else "probe_raw"
        stats[k] = stats.get(k, 0) + 1
    stats["probe_two_or_more_symmetry_planes"] = int(sum(1 for x in sym if x != 0) >= 2)
    stats["probe_two_electric_planes_shared_edge_read"] = int(sum(1 for x in sym if x == -1) >= 2 and any(d["exact"] and all(d["box"][a][0] == shift[a] for a in range(3) if sym[a] == -1) for d in spec["detectors"]))
    stats["probe_nonuniform"] = int(spec["grid"]["kind"] == "rect")
    stats["probe_complex_fields"] = int(bool(spec.get("complex")))
    stats["probe_complex_fields_nonuniform"] = int(bool(spec.get("complex")) and spec["grid"]["kind"] == "rect")
    stats["probe_periodic_halo"] = int(any(wrap))
    stats["records_checked"] = checked
    sig = specgen.scene_signature(spec, sorted(set((d.get("box_class"), d["exact"]) for d in spec["detectors"])))
    digest = dr.digest_arrays(dr.full_np(state)) + f":{dr.sig3(resid['record'])}:v{len(viol)}"
    return {"violations": viol, "stats": stats, "residuals": resid, "nontrivial": bool(checked > 0 and scale > 0), "signature": sig, "digest": digest}
