#!/usr/bin/env python
"""CLI: run_check.py <PROP> [--tier quick|thorough] [--seed N] [--replay file] ...

Always re-executes itself with PYTHONHASHSEED=0 unless a hash seed is already pinned.
"""
import argparse
import json
import os
import sys

ROOT = os.path.dirname(os.path.abspath(__file__))
sys.path.insert(0, ROOT)


def main() -> int:
    if "PYTHONHASHSEED" not in os.environ:
        os.environ["PYTHONHASHSEED"] = "0"
        os.execv(sys.executable, [sys.executable] + sys.argv)
    ap = argparse.ArgumentParser()
    ap.add_argument("prop")
    ap.add_argument("--tier", default=os.environ.get("VERIF_TIER", "quick"))
    ap.add_argument("--seed", type=int, default=int(os.environ.get("VERIF_SEED", "0")))
    ap.add_argument("--runs", type=int, default=None)
    ap.add_argument("--workers", type=int, default=None)
    ap.add_argument("--replay", default=None, help="replay file: re-execute in this fresh process")
    ap.add_argument("--exec-spec", default=None, help="internal: execute one spec (file or - for stdin)")
    ap.add_argument("--exec-specs", default=None, help="internal: execute a list of specs")
    ap.add_argument("--index", type=int, default=None, help="execute only run <index> of the seed and print its result")
    a = ap.parse_args()
    prop = a.prop.upper()

    from fdsim import engine

    if a.exec_spec or a.exec_specs or a.replay or a.index is not None:
        engine._winit(1, bool(getattr(engine.load_check(prop if not a.replay else json.load(open(a.replay))['property']), 'X64', True)))
        if a.exec_spec:
            spec = json.load(sys.stdin if a.exec_spec == "-" else open(a.exec_spec))
            r = engine._wrun(prop, 0, spec, 3600)
            print("RESULT " + json.dumps(r, default=engine._json_default))
            return 0
        if a.exec_specs:
            specs = json.load(sys.stdin if a.exec_specs == "-" else open(a.exec_specs))
            rs = [engine._wrun(prop, i, s, 3600) for i, s in enumerate(specs)]
            print("RESULTS " + json.dumps(rs, default=engine._json_default))
            return 0
        if a.index is not None:
            mod = engine.load_check(prop)
            spec = engine.jsonable(mod.generate(engine.rng_for(a.seed, prop, a.index), a.tier, a.index))
            r = engine._wrun(prop, a.index, spec, 3600)
            print(json.dumps({"spec": spec, "result": r}, indent=1, default=engine._json_default))
            return 0
        doc = json.load(open(a.replay))
        r = engine._wrun(doc["property"], doc.get("run_index", 0), doc["spec"], 3600)
        if "harness_error" in r:
            print(f"HARNESS-ERROR {r['harness_error']}\n{r.get('trace', '')}")
            return 2
        want = doc["violation"]["monitor"]
        got = [v for v in r["violations"] if v["monitor"] == want]
        if got:
            print(f"REPRODUCED property={doc['property']} monitor={want} detail={json.dumps(got[0], default=engine._json_default)[:800]}")
            mod = engine.load_check(doc["property"])
            kid = engine.classify(mod, doc["spec"], got[0], engine.load_known(doc["property"]))
            if kid:
                print(f"KNOWN-FINDING: property={doc['property']} {kid}")
                return 0
            print(f"VIOLATION property={doc['property']} replay={a.replay}")
            return 1
        print(f"NOT-REPRODUCED property={doc['property']} monitor={want}; violations now: {[v['monitor'] for v in r['violations']]}")
        return 0
    return engine.run_check(prop, a.tier, a.seed, workers=a.workers, runs=a.runs)


if __name__ == "__main__":
    sys.exit(main())
