"""NumPy reference oracles re-derived from the property statements (no fdtdx imports)."""
from __future__ import annotations

import numpy as np


def widths_from_spec(spec) -> list[np.ndarray]:
    g = spec["grid"]
    shape = spec["shape"]
    if g["kind"] == "rect":
        return [np.diff(np.asarray(e, dtype=np.float64)) for e in g["edges"]]
    if g["kind"] == "quasi":
        return [np.full(n, float(d)) for n, d in zip(shape, g["d"])]
    return [np.full(n, float(g["spacing"])) for n in shape]


def dual_widths(w: np.ndarray) -> np.ndarray:
    """Dual (node-centred) widths: 0.5*(w_i + w_{i-1}) with w_{-1} := w_0."""
    prev = np.concatenate([w[:1], w[:-1]])
    return 0.5 * (w + prev)


def yee_volumes(widths: list[np.ndarray]) -> tuple[np.ndarray, np.ndarray]:
    """Control volumes of the Yee components: VE[c], VH[c] of shape (3,nx,ny,nz).

    E_c lives on the primal edge along c (primal width along c, dual widths across);
    H_c is the dual (dual width along c, primal widths across).
    """
    prim = widths
    dual = [dual_widths(w) for w in widths]

    def outer(a, b, c):
        return a[:, None, None] * b[None, :, None] * c[None, None, :]

    VE = np.stack([outer(prim[0], dual[1], dual[2]), outer(dual[0], prim[1], dual[2]), outer(dual[0], dual[1], prim[2])])
    VH = np.stack([outer(dual[0], prim[1], prim[2]), outer(prim[0], dual[1], prim[2]), outer(prim[0], prim[1], dual[2])])
    return VE, VH


def expand_diag(inv, shape):
    """inverse material array (1|3, nx,ny,nz) or scalar -> material value array (3,nx,ny,nz)."""
    if np.ndim(inv) == 0:
        return np.full((3, *shape), 1.0 / float(inv))
    inv = np.asarray(inv)
    if inv.shape[0] not in (1, 3):
        raise ValueError("diagonal tiers only")
    return np.broadcast_to(1.0 / inv, (3, *shape))


def yee_energy(E, H_prev, H_cur, eps3, mu3, VE, VH) -> float:
    """Discrete Yee energy at the integer step of E: sum V eps |E|^2 + sum V mu Re(H^{n-1/2} conj H^{n+1/2})."""
    ue = np.sum(VE * eps3 * (E.real**2 + E.imag**2)) if np.iscomplexobj(E) else np.sum(VE * eps3 * E * E)
    uh = np.sum(VH * mu3 * np.real(H_prev * np.conj(H_cur)))
    return float(ue + uh)


# ------------------------------------------------------------------ co-location oracle (C15)


def pad_halo(F: np.ndarray, wrap: tuple[bool, bool, bool], mirror: dict | None = None, field_type: str = "E") -> np.ndarray:
    """(3,nx,ny,nz) -> (3,nx+2,ny+2,nz+2): periodic wrap on wrap axes, zero otherwise.

    mirror = {axis: -1}: the min face of `axis` is an *electric* symmetry plane through the nodes of index 0.  The halo
    cell (index -1) then holds the mirror image of the interior, from first principles: components sampled on the plane
    (tangential E, normal H: integer position along the axis) pair index -1 with index +1 and are odd across an electric
    wall; components sampled half a cell off it (normal E, tangential H: position i+1/2) pair index -1 with index 0 and
    are even.  A magnetic plane (+1) lies half a cell below the reduced domain and keeps the zero halo.
    """
    out = F
    for a in range(3):
        pw = [(0, 0)] * 4
        pw[a + 1] = (1, 1)
        out = np.pad(out, pw, mode="wrap" if wrap[a] else "constant")
    for a, wall in (mirror or {}).items():
        a = int(a)
        if wall != -1:
            continue
        for c in range(3):
            on_plane = (c != a) if field_type == "E" else (c == a)
            parity = -1.0 if on_plane else 1.0
            src = 2 if on_plane else 1
            tgt_i = [slice(None)] * 3
            src_i = [slice(None)] * 3
            tgt_i[a] = 0
            src_i[a] = src
            out[(c, *tgt_i)] = parity * out[(c, *src_i)]
    return out


def _back_avg(cur, prev, w, axis):
    """value at the lower edge of cell i between centre-staggered samples of cells i-1 and i.

    Uniform: arithmetic mean. Non-uniform: weights by the half widths (linear interpolation),
    with w_{-1} := w_0 for the halo cell.
    """
    wp = np.concatenate([w[:1], w[:-1]])
    sh = [1, 1, 1]
    sh[axis] = -1
    a = (0.5 * w).reshape(sh)
    b = (0.5 * wp).reshape(sh)
    return (cur * b + prev * a) / (a + b)


def colocate(E_pad: np.ndarray, H_pad: np.ndarray, widths: list[np.ndarray]) -> tuple[np.ndarray, np.ndarray]:
    """Co-locate all six components onto the E_z node (i, j, k+1/2).

    E_x (i+1/2,j,k): x backward, z forward;  E_y (i,j+1/2,k): y backward, z forward; E_z as is;
    H_x (i,j+1/2,k+1/2): y backward; H_y (i+1/2,j,k+1/2): x backward; H_z (i+1/2,j+1/2,k): x,y backward, z forward.
    z-forward averaging is the plain mean of k and k+1 samples (E_z node sits at the cell centre in z).
    """
    c = (slice(1, -1),) * 3

    def sh(F, dx=0, dy=0, dz=0):
        def s(d):
            return slice(1 + d, F.shape[0] - 1 + d) if False else None

        idx = []
        for d, n in zip((dx, dy, dz), F.shape):
            idx.append(slice(1 + d, n - 1 + d))
        return F[tuple(idx)]

    wx, wy, wz = widths
    Ex, Ey, Ez = E_pad
    Hx, Hy, Hz = H_pad
    ex_lo = _back_avg(sh(Ex), sh(Ex, dx=-1), wx, 0)
    ex_hi = _back_avg(sh(Ex, dz=1), sh(Ex, dx=-1, dz=1), wx, 0)
    ex = 0.5 * (ex_lo + ex_hi)
    ey_lo = _back_avg(sh(Ey), sh(Ey, dy=-1), wy, 1)
    ey_hi = _back_avg(sh(Ey, dz=1), sh(Ey, dy=-1, dz=1), wy, 1)
    ey = 0.5 * (ey_lo + ey_hi)
    ez = sh(Ez)
    hx = _back_avg(sh(Hx), sh(Hx, dy=-1), wy, 1)
    hy = _back_avg(sh(Hy), sh(Hy, dx=-1), wx, 0)

    def hz_plane(dz):
        a = _back_avg(sh(Hz, dz=dz), sh(Hz, dx=-1, dz=dz), wx, 0)
        b = _back_avg(sh(Hz, dy=-1, dz=dz), sh(Hz, dx=-1, dy=-1, dz=dz), wx, 0)
        return _back_avg(a, b, wy, 1)

    hz = 0.5 * (hz_plane(0) + hz_plane(1))
    return np.stack([ex, ey, ez]), np.stack([hx, hy, hz])
