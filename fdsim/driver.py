"""Step driver: the simulator owns the time loop.

One call of the real `forward` / `backward` per simulated step (jitted once per scene), host
snapshots as "durable storage", crash = dropping every in-memory array and rebuilding from a snapshot.
"""
from __future__ import annotations

import hashlib
from typing import Any

import numpy as np

from fdsim import env


def _jax():
    import jax

    return jax


class Stepper:
    """Wraps a scene; `fwd`/`bwd` call the library's public single-step functions."""

    def __init__(self, scene, record_detectors=True, record_boundaries=False, simulate_boundaries=True, objects=None, jit=True):
        import jax
        from fdtdx.fdtd.forward import forward
        from fdtdx.fdtd.backward import backward

        self.scene = scene
        self.objects = scene.objects if objects is None else objects
        self.config = scene.config
        self.key = scene.key
        self.stats = {"fwd_steps": 0, "bwd_steps": 0}
        cfg, objs, key = self.config, self.objects, self.key

        def _f(state):
            t, arr = state
            # copy the detector dict: update_detector_states mutates the dict it is given
            arr = arr.aset("detector_states", {k: dict(v) for k, v in arr.detector_states.items()})
            return forward(
                state=(t, arr),
                config=cfg,
                objects=objs,
                key=key,
                record_detectors=record_detectors,
                record_boundaries=record_boundaries,
                simulate_boundaries=simulate_boundaries,
            )

        def _b(state, reset_fields, record_det):
            t, arr = state
            arr = arr.aset("detector_states", {k: dict(v) for k, v in arr.detector_states.items()})
            return backward(state=(t, arr), config=cfg, objects=objs, key=key, record_detectors=record_det, reset_fields=reset_fields)

        self._f = jax.jit(_f) if jit else _f
        self._b = jax.jit(_b, static_argnums=(1, 2)) if jit else _b

    def state0(self, arrays=None, t: int = 0):
        import jax.numpy as jnp

        return (jnp.asarray(t, dtype=jnp.int32), self.scene.arrays if arrays is None else arrays)

    def fwd(self, state, n: int = 1):
        for _ in range(n):
            state = self._f(state)
            self.stats["fwd_steps"] += 1
        return state

    def bwd(self, state, n: int = 1, reset_fields: bool = False, record_detectors: bool = False):
        for _ in range(n):
            state = self._b(state, reset_fields, record_detectors)
            self.stats["bwd_steps"] += 1
        return state


# ---------------------------------------------------------------- snapshots (durable storage stub)


def snapshot(state) -> dict:
    """Host copy of a SimulationState: the only thing that survives a simulated crash."""
    import jax

    t, arr = state
    leaves, treedef = jax.tree.flatten(arr)
    host = [np.array(x) if hasattr(x, "shape") else x for x in leaves]
    return {"t": int(t), "leaves": host, "treedef": treedef}


def restore(snap) -> Any:
    import jax
    import jax.numpy as jnp

    leaves = [jnp.asarray(x) if isinstance(x, np.ndarray) else x for x in snap["leaves"]]
    arr = jax.tree.unflatten(snap["treedef"], leaves)
    return (jnp.asarray(snap["t"], dtype=jnp.int32), arr)


def roundtrip(state):
    return restore(snapshot(state))


def fields_np(state_or_arrays) -> dict:
    arr = state_or_arrays[1] if isinstance(state_or_arrays, tuple) else state_or_arrays
    f = arr.fields
    out = {"E": np.array(f.E), "H": np.array(f.H)}
    for nm, d in (("psi_E", f.psi_E), ("psi_H", f.psi_H)):
        for k in sorted(d):
            out[f"{nm}/{k}/0"] = np.array(d[k][0])
            out[f"{nm}/{k}/1"] = np.array(d[k][1])
    if f.dispersive_P_curr is not None:
        out["P_curr"] = np.array(f.dispersive_P_curr)
        out["P_prev"] = np.array(f.dispersive_P_prev)
    return out


def detectors_np(state_or_arrays) -> dict:
    arr = state_or_arrays[1] if isinstance(state_or_arrays, tuple) else state_or_arrays
    out = {}
    for k in sorted(arr.detector_states):
        for k2 in sorted(arr.detector_states[k]):
            out[f"{k}/{k2}"] = np.array(arr.detector_states[k][k2])
    return out


def materials_np(arrays) -> dict:
    out = {}
    for nm in ("inv_permittivities", "inv_permeabilities", "electric_conductivity", "magnetic_conductivity", "dispersive_c1", "dispersive_c2", "dispersive_c3", "dispersive_c4", "initial_inv_permittivities"):
        v = getattr(arrays, nm)
        if v is None:
            continue
        out[nm] = np.array(v)
    return out


def full_np(state) -> dict:
    d = {}
    d.update({f"f/{k}": v for k, v in fields_np(state).items()})
    d.update({f"d/{k}": v for k, v in detectors_np(state).items()})
    return d


# ---------------------------------------------------------------- comparisons / digests


def rel_diff(a: np.ndarray, b: np.ndarray, scale: float | None = None) -> float:
    """max|a-b| / max(scale or max|a|,|b|, tiny).  NaN anywhere -> inf."""
    a = np.asarray(a)
    b = np.asarray(b)
    if a.shape != b.shape:
        return float("inf")
    if a.size == 0:
        return 0.0
    if a.dtype == bool or b.dtype == bool:
        return 0.0 if np.array_equal(a, b) else float("inf")
    d = np.abs(a - b)
    if not np.all(np.isfinite(d)):
        return float("inf")
    s = scale if scale is not None else max(float(np.max(np.abs(a))), float(np.max(np.abs(b))))
    if s == 0.0:
        return 0.0 if float(np.max(d)) == 0.0 else float("inf")
    return float(np.max(d)) / s


def dict_rel_diff(a: dict, b: dict, scales: dict | None = None, field_floor: float = 1e-2) -> tuple[float, str]:
    """Worst relative difference over the union of keys (missing key -> inf).

    Keys of the field group ("f/...": E, H, PML psi, polarisation) share one physical scale: an array
    whose own max is below field_floor x (group max) is compared against that floor instead of its own
    noise-level magnitude (a PML auxiliary field of 1e-18 next to fields of 1e-8 carries only round-off).
    """
    worst, wk = 0.0, ""
    gmax = 0.0
    for k in a:
        if k.startswith("f/") and k in b and np.asarray(a[k]).size:
            gmax = max(gmax, float(np.max(np.abs(a[k]))), float(np.max(np.abs(b[k]))))
    for k in sorted(set(a) | set(b)):
        if k not in a or k not in b:
            return float("inf"), k
        sc = None if scales is None else scales.get(k)
        if sc is None and k.startswith("f/") and gmax > 0 and np.isfinite(gmax):
            own = max(float(np.max(np.abs(a[k]))), float(np.max(np.abs(b[k])))) if np.asarray(a[k]).size else 0.0
            if np.isfinite(own):
                sc = max(own, field_floor * gmax)
        r = rel_diff(a[k], b[k], sc)
        if r > worst:
            worst, wk = r, k
    return worst, wk


def digest_arrays(d: dict) -> str:
    h = hashlib.sha256()
    for k in sorted(d):
        h.update(k.encode())
        a = np.ascontiguousarray(d[k])
        h.update(str(a.dtype).encode())
        h.update(str(a.shape).encode())
        h.update(a.tobytes())
    return h.hexdigest()[:16]


def sig3(x: float) -> float:
    """Round to 3 significant digits (used in digests of residuals)."""
    if x == 0 or not np.isfinite(x):
        return float(x)
    from math import floor, log10

    return round(x, -int(floor(log10(abs(x)))) + 2)
