"""C05 — forward results do not depend on the gradient strategy; reversible slices partition the run.

Schedule space = (gradient method, checkpoint count): the same placed scene is run through the real
`run_fdtd` under no gradient config, checkpointed with n checkpoints and reversible with k interior
checkpoints (all k for small T, seeded subset otherwise) and must agree with the driver's own T steps.
The slice-boundary helper is enumerated completely for T <= 300.
"""
from __future__ import annotations

import numpy as np

from fdsim import specgen

PROPERTY = "C05"
LEVEL = "fault_enumeration"
EXHAUSTIVE_INNER = True
RUNS = {"quick": 12, "thorough": 200}
RULE = (
    "run 0: slice partition enumerated for every T <= 300 and every k < T (via the module helper if importable). other runs: seeded "
    "scenes (all boundary kinds, lossless or conductive, 1-2 sources, 1-3 detectors of all kinds), T <= 12; strategies {None, "
    "checkpointed n in {1, seeded, T}, reversible k in {0, seeded.., T-1}} (all k when T <= 6); k >= T must be rejected. non-trivial = "
    "non-zero final fields; distinct = scene signature x strategy set"
)
REAL = ["place_objects", "run_fdtd", "checkpointed_fdtd", "reversible_fdtd (segmented forward)", "forward", "_reversible_slice_boundaries"]
STUB = ["tqdm disabled"]
ASSUMPTIONS = ["float64, 1e-12 relative", "the partition helper is read by name; if a refactor removes it that part reports 'not observable' and the end-to-end runs remain"]
TECHNIQUE = "deterministic simulation: strategy-switch schedule (gradient method x checkpoint placement) against the driver-stepped reference; exhaustive slice partition"
LEVEL_TEXT = "Inner strategy space enumerated (completely for T<=6, boundaries for all T<=300); outer scene space sampled. Equality of step count, fields, PML state and detector outputs across strategies."
LEVEL_NOTE = "float64 CPU; T <= 12; strategies compared on forward results only (gradients are C04)"


def generate(rng, tier, index):
    if index == 0:
        return {"mode": "partition", "Tmax": 300}
    spec = specgen.rand_scene(rng, T=(3, 12), shape=(4, 8), pml=(2, 3), p_nonuniform=0.3, tiers=("iso", "diag"), sigma_e=True, n_detectors=(1, 3))
    spec["mode"] = "scene"
    T = spec["steps"]
    spec["gradient"] = {"method": "reversible", "recorder": []}
    if T <= 6:
        ks = list(range(T))
        ns = list(range(1, T + 1))
    else:
        ks = sorted({0, T - 1, int(rng.integers(1, T - 1)), int(rng.integers(1, T - 1))})
        ns = sorted({1, T, int(rng.integers(1, T + 1))})
    spec["ops"] = [{"op": "none"}] + [{"op": "checkpointed", "n": n} for n in ns] + [{"op": "reversible", "k": k} for k in ks] + [{"op": "reversible_too_many", "k": T}]
    # the same forward pass taken *under differentiation* (jax.vjp runs the custom-VJP forward rule / the checkpointed loop's
    # differentiable path, which is what an optimisation loop executes): its primal outputs must equal the plain run too
    # and once more from the arrays that strategy's run returned (a second optimisation iteration): same results again
    spec["ops"] += [{"op": "reversible_rerun", "k": int(ks[int(rng.integers(0, len(ks)))])}, {"op": "checkpointed_rerun", "n": int(ns[int(rng.integers(0, len(ns)))])}]
    spec["ops"] += [{"op": "reversible_under_vjp", "k": int(ks[int(rng.integers(0, len(ks)))])}, {"op": "checkpointed_under_vjp", "n": int(ns[int(rng.integers(0, len(ns)))])}]
    return spec


def shrink(spec):
    if spec.get("mode") != "scene":
        return []
    out = []
    for s in specgen.generic_shrinks(spec):
        if s.get("ops"):
            out.append(s)
    return out


def _partition(spec):
    stats, viol = {"partitions": 0}, []
    try:
        from fdtdx.fdtd.fdtd import _reversible_slice_boundaries as f
    except Exception:
        return {"violations": [], "stats": {"partition_not_observable": 1}, "nontrivial": False, "signature": "partition:na", "digest": "na"}
    import hashlib

    h = hashlib.sha1()
    for T in range(1, spec["Tmax"] + 1):
        for k in range(0, T):
            b = list(f(T, k + 1))
            stats["partitions"] += 1
            h.update(str(b).encode())
            ok = len(b) == k + 2 and b[0] == 0 and b[-1] == T and all(int(y) > int(x) for x, y in zip(b, b[1:])) and all(int(x) == x for x in b)
            if not ok:
                viol.append({"monitor": "slice_partition", "T": T, "k": k, "boundaries": [int(x) for x in b]})
                if len(viol) >= 3:
                    break
        if len(viol) >= 3:
            break
    return {"violations": viol, "stats": stats, "nontrivial": True, "signature": "partition", "digest": h.hexdigest()[:16]}


def execute(spec):
    from fdsim import env

    env.bootstrap()
    if spec.get("mode") == "partition":
        return _partition(spec)
    import fdtdx
    import jax
    from fdsim import scene as sc, driver as dr

    try:
        scn = sc.build_scene(spec)
    except (ValueError, NotImplementedError) as e:
        return {"rejected": True, "nontrivial": False, "stats": {"rejected": 1}, "digest": "rejected:" + type(e).__name__}
    T = scn.T
    cfg_rev = scn.config
    st = dr.Stepper(scn)
    ref_state = st.fwd(st.state0(scn.arrays.reset()), T)
    ref = dr.full_np(ref_state)
    viol, stats, resid = [], {"sim_steps": T, "sim_time_fs": 0.0}, {}
    nontrivial = bool(np.max(np.abs(ref["f/E"])) > 0)
    for op in spec["ops"]:
        k = op["op"]
        cfg = cfg_rev
        if k == "none":
            cfg = cfg_rev.aset("gradient_config", None)
        elif k == "checkpointed":
            cfg = cfg_rev.aset("gradient_config", fdtdx.GradientConfig(method="checkpointed", num_checkpoints=int(op["n"])))
        elif k in ("reversible", "reversible_too_many"):
            cfg = cfg_rev.aset("gradient_config", cfg_rev.gradient_config.aset("num_checkpoints_reversible", int(op["k"])))
        if k == "reversible_too_many":
            try:
                out = fdtdx.run_fdtd(scn.arrays, scn.objects, cfg, scn.key, show_progress=False)
                jax.block_until_ready(out)
                viol.append({"monitor": "too_many_reversible_checkpoints_accepted", "k": int(op["k"]), "T": T})
            except Exception as e:
                if "num_checkpoints_reversible" not in str(e):
                    raise
                stats["fault_rejected_strategy"] = stats.get("fault_rejected_strategy", 0) + 1
            continue
        if k.endswith("_rerun"):
            gc = fdtdx.GradientConfig(method="checkpointed", num_checkpoints=int(op["n"])) if k.startswith("checkpointed") else cfg_rev.gradient_config.aset("num_checkpoints_reversible", int(op["k"]))
            cfg = cfg_rev.aset("gradient_config", gc)
            _, first = fdtdx.run_fdtd(scn.arrays, scn.objects, cfg, scn.key, show_progress=False)
            t, arr = fdtdx.run_fdtd(first, scn.objects, cfg, scn.key, show_progress=False)
            stats["sim_steps"] += T
        elif k.endswith("_under_vjp"):
            gc = fdtdx.GradientConfig(method="checkpointed", num_checkpoints=int(op["n"])) if k.startswith("checkpointed") else cfg_rev.gradient_config.aset("num_checkpoints_reversible", int(op["k"]))
            cfg = cfg_rev.aset("gradient_config", gc)

            def run(inv_eps, cfg=cfg):
                return fdtdx.run_fdtd(scn.arrays.aset("inv_permittivities", inv_eps), scn.objects, cfg, scn.key, show_progress=False)

            (t, arr), _vjp = jax.vjp(run, scn.arrays.inv_permittivities)
        else:
            t, arr = fdtdx.run_fdtd(scn.arrays, scn.objects, cfg, scn.key, show_progress=False)
        stats["sim_steps"] += T
        stats["fault_strategy_" + k] = stats.get("fault_strategy_" + k, 0) + 1
        got = dr.full_np((t, arr))
        if cfg.gradient_config is None or cfg.gradient_config.method != "reversible":
            pass
        d, key = dr.dict_rel_diff(ref, got)
        resid[k] = max(resid.get(k, 0.0), d if np.isfinite(d) else 1e300)
        if int(t) != T:
            viol.append({"monitor": "step_count", "strategy": op, "got": int(t), "want": T})
        if not (d <= 1e-12):
            viol.append({"monitor": "strategy_changes_forward_result", "strategy": op, "metric": "rel_diff", "value": d, "tolerance": 1e-12, "key": key})
    stats["sim_time_fs"] = stats["sim_steps"] * scn.dt * 1e15
    stats["probe_pml"] = int(any(f["kind"] == "pml" for f in spec["faces"].values()))
    sig = specgen.scene_signature(spec, sorted(set(o["op"] for o in spec["ops"])), T <= 6)
    digest = dr.digest_arrays(ref) + ":" + ",".join(f"{k}={dr.sig3(v)}" for k, v in sorted(resid.items())) + f":v{len(viol)}"
    return {"violations": viol, "stats": stats, "residuals": resid, "nontrivial": nontrivial, "signature": sig, "digest": digest}
