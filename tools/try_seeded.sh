#!/bin/bash
# Usage: try_seeded.sh <patch.diff> <PROP> [tier] [extra run_check args]
# Applies a seeded change to a scratch worktree of /repo (outside /repo and /verif), runs the check of <PROP>
# against it via VERIF_REPO_SRC, prints the verdict, removes the worktree. Evidence/replays go to a scratch dir.
set -u
PATCH=$(readlink -f "$1"); PROP=$2; TIER=${3:-quick}; shift 3 2>/dev/null || shift 2
WT=$(mktemp -d /tmp/seeded_wt_XXXX); rmdir "$WT"
git -C /repo worktree add -q --detach "$WT" HEAD || exit 3
if ! git -C "$WT" apply "$PATCH"; then echo "PATCH DOES NOT APPLY"; git -C /repo worktree remove --force "$WT"; exit 3; fi
OUT=$(mktemp -d /tmp/seeded_out_XXXX)
cd /verif
VERIF_REPO_SRC="$WT/src" VERIF_EVIDENCE_DIR="$OUT/evidence" VERIF_REPLAY_DIR="$OUT/replays" VERIF_NO_PROBE=1 VERIF_NO_SHRINK=${VERIF_NO_SHRINK-1} \
  timeout 3000 /venv/bin/python run_check.py "$PROP" --tier "$TIER" "$@" > "$OUT/log" 2>&1
rc=$?
echo "SEEDED $(basename $(dirname $PATCH)) check=$PROP tier=$TIER rc=$rc  violations=$(grep -c '^VIOLATION' $OUT/log) known=$(grep -c '^KNOWN-FINDING' $OUT/log) harness=$(grep -c '^HARNESS-ERROR' $OUT/log)"
grep -E "^  monitor=|^HARNESS-ERROR" "$OUT/log" | cut -c1-260 | head -4
git -C /repo worktree remove --force "$WT"
rm -rf "$OUT"
exit $rc
