"""C29 — sources and detectors see the device materials after parameters are applied (see _devmachine)."""
from checks import _devmachine as dm

PROPERTY = "C29"
LEVEL = "exploration"
RUNS = {"quick": 28, "thorough": 600}
RULE = (
    "same container generator as C18; 1-3 sources (dipoles; uniform/Gaussian plane sources on isotropic scenes) whose boxes are drawn per axis "
    "from the interval relations {inside, equal, containing, partial, touching, disjoint} with respect to a device (half of the sources are forced "
    "strictly inside a device), every fourth run also a ModePlaneSource on a full transverse plane cutting a device (mostly over a conductive background), 0-2 detectors; after every APPLY each source/detector that truly intersects a device is compared leaf by leaf with "
    "a copy re-applied against the current arrays. non-trivial = at least one intersecting object compared; distinct = as C18 x relation tuples"
)
REAL = ["place_objects", "apply_params", "SimulationObject.check_overlap", "Source.apply / Detector.apply"]
STUB = []
ASSUMPTIONS = ["float64, 1e-12; objects carry no random offsets, so the PRNG key passed to apply is irrelevant", "reference = the object's own public apply() against the post-device arrays"]
TECHNIQUE = "deterministic simulation: stale-derived-state check after every operation of a seeded apply/run history"
LEVEL_TEXT = "Seeded exploration of overlap relations x application histories; generic pytree comparison, no field names."
LEVEL_NOTE = "float64 CPU; mode overlap detectors not generated (mode sources are)"


def generate(rng, tier, index):
    return dm.generate(rng, tier, index, "C29")


def execute(spec):
    return dm.execute(spec, "C29")


shrink = dm.shrink
