"""C07 — stopping conditions stop exactly where documented.

Deadlines on the solver's own clock.  Per scene the driver produces the plain trajectory (state after
every step); the metric each condition documents (total field energy / spectral distance of the last
period of a reduced detector against the mean of the previous periods) is evaluated on that trajectory
to obtain the first step at which the condition reports stop.  The real loop `run_fdtd(stopping_condition=...)`
must halt at min(first stop, declared max_steps, T), not before min_steps, in the state of a plain run.
"""
from __future__ import annotations

import numpy as np

from fdsim import specgen

PROPERTY = "C07"
LEVEL = "exploration"
RUNS = {"quick": 16, "thorough": 400}
RULE = (
    "seeded scenes (PML/periodic/PEC faces, optional conductive medium, one CW or pulsed source, one reduced energy/Poynting/field detector "
    "recording every step), T in 12..40; 4-6 conditions per scene: EnergyThresholdCondition and DetectorConvergenceCondition with log-uniform "
    "thresholds, min_steps in {None, 0, random, > max}, max_steps in {None, < T, = T, > T}. Conditions whose metric comes within 1e-9 "
    "(relative) of the threshold at any step are skipped (knife edge). non-trivial = a condition stopped strictly before T; distinct = scene "
    "signature x (condition kind, which bound decided)"
)
REAL = ["place_objects", "run_fdtd(stopping_condition)", "checkpointed_fdtd while loop", "EnergyThresholdCondition", "DetectorConvergenceCondition", "compute_energy"]
STUB = ["tqdm replaced by a recording progress callback"]
X64 = False  # DetectorConvergenceCondition mixes int32/int64 slice indices when jax_enable_x64 is on (library limitation); run in float32
STATE_TOL = 2e-5
KNIFE = 1e-3
ASSUMPTIONS = ["float32 (x64 off); state equality 2e-5 relative (reduced field / flux records relative to the same reduction of |x_i|, taken from an unreduced companion detector); conditions whose metric comes within 1e-3 (relative) of the threshold are skipped","first-stop step computed from the documented metric on the driver's plain trajectory (independent NumPy re-statement for the detector metric, library compute_energy for the energy metric)"]
TECHNIQUE = "deterministic simulation: deadline/timer check of the real loop against the first-stop step derived from the driver-stepped trajectory"
LEVEL_TEXT = "Seeded exploration over scenes x condition parameters; the halting step and the halted state are compared with the plain trajectory for every generated condition."
LEVEL_NOTE = "float64 CPU; T <= 40; min_steps > max_steps resolved in favour of the maximum (as the statement orders them)"


def generate(rng, tier, index):
    spec = specgen.rand_scene(
        rng, T=(12, 40), shape=(4, 7), pml=(2, 3), p_nonuniform=0.2, tiers=("iso",), sigma_e=True, mu=False,
        source_kinds=("dipole",), n_sources=(1, 1), n_detectors=(0, 0), switches=False,
    )
    T = spec["steps"]
    spp = int(rng.integers(2, 5))
    prev = int(rng.integers(1, 3))
    src = spec["sources"][0]
    src.pop("switch", None)
    kind = specgen.choice(rng, ["energy", "poynting", "field"])
    det = {"kind": kind, "name": "dconv", "exact": True, "reduce": True, "box": specgen.rand_box(rng, spec["shape"], min_size=2)}
    if kind == "poynting":
        ax = int(rng.integers(0, 3))
        p = int(rng.integers(0, spec["shape"][ax]))
        det["box"][ax] = [p, p + 1]
        for a in range(3):
            if a != ax and det["box"][a][1] - det["box"][a][0] < 2:
                det["box"][a] = [0, 2]
        det["direction"] = "+"
    if kind == "field":
        det["components"] = [specgen.choice(rng, list(specgen.ALL_COMPONENTS))]
    spec["detectors"] = [det]
    conds = []
    for _ in range(int(rng.integers(4, 7))):
        ck = specgen.choice(rng, ["energy", "convergence"])
        mx = specgen.choice(rng, [None, int(rng.integers(1, T)), T, T + int(rng.integers(1, 10))])
        if ck == "energy":
            mn = specgen.choice(rng, [None, 0, int(rng.integers(0, T)), (mx or T) + 3])
            conds.append({"kind": "energy", "threshold": float(10 ** rng.uniform(-14, 2)), "min_steps": mn, "max_steps": mx})
        else:
            need = (prev + 1) * spp
            if need > T:
                continue
            mn = specgen.choice(rng, [None, int(rng.integers(need, T + 1))])
            conds.append({"kind": "convergence", "threshold": float(10 ** rng.uniform(-12, 1)), "min_steps": mn, "max_steps": mx, "spp": spp, "prev_periods": prev})
    spec["ops"] = conds
    spec["dtype"] = "float32"
    spec["grid"] = {"kind": "uniform", "spacing": specgen.SPACING}
    return spec


def shrink(spec):
    return [s for s in specgen.generic_shrinks(spec) if s.get("ops") and s.get("detectors") and s.get("sources")]


def _spectral_distance(readings, t, spp, prev, T):
    start_ref = int(np.clip(t - (prev + 1) * spp, 0, T - prev * spp))
    start_last = int(np.clip(t - spp, 0, T - spp))
    ref = readings[start_ref : start_ref + prev * spp].reshape(prev, spp).mean(axis=0)
    last = readings[start_last : start_last + spp]
    return float(np.linalg.norm(np.abs(np.fft.rfft(ref, n=spp)) - np.abs(np.fft.rfft(last, n=spp))))


def _reduced_scales(spec, state):
    """Comparison scale of the reduced detector record: the same reduction applied to |x_i| (uniform grid: constant weights)."""
    from fdsim import driver as dr

    D = dr.detectors_np(state)
    det = spec["detectors"][0]
    out = {}
    for k, v in D.items():
        if not k.startswith("dconv_sp/") or not v.size:
            continue
        a = np.abs(v).reshape(v.shape[0], -1)
        if det["kind"] == "field":
            sc_ = float(a.mean(axis=1).max())  # reduced field = volume-weighted mean
        else:
            sc_ = float(a.sum(axis=1).max()) * specgen.SPACING**2  # reduced flux = area-weighted sum
        key = "d/dconv/" + k.split("/", 1)[1]
        own = float(np.max(np.abs(D[key.removeprefix("d/")]))) if key.removeprefix("d/") in D else 0.0
        if np.isfinite(sc_) and sc_ > 0:
            out[key] = max(sc_, own)
    return out


def execute(spec):
    import fdtdx
    import jax.numpy as jnp
    from fdtdx.fdtd.stop_conditions import DetectorConvergenceCondition, EnergyThresholdCondition
    from fdsim import scene as sc, driver as dr

    # companion detector: same region / schedule, not reduced.  It only supplies the round-off scale of the reduced
    # record (a float32 mean / sum over the box is accurate relative to sum|x_i|, not to the possibly cancelling net value)
    det0 = spec["detectors"][0]
    if det0["kind"] in ("field", "poynting"):
        spec = {**spec, "detectors": [det0, {**det0, "name": "dconv_sp", "reduce": False}]}
    scn = sc.build_scene(spec)
    T = scn.T
    st = dr.Stepper(scn)
    state = st.state0(scn.arrays.reset())
    states = [state]
    energies = []
    for t in range(T):
        state = st.fwd(state, 1)
        states.append(state)
    for s in states:
        a = s[1]
        energies.append(float(jnp.sum(fdtdx.compute_energy(a.fields.E, a.fields.H, a.inv_permittivities, a.inv_permeabilities))))
    viol, stats, resid = [], {"sim_steps": T, "sim_time_fs": 0.0, "conditions": 0, "knife_edge_skipped": 0}, {"state": 0.0}
    decided = []
    nontrivial = False
    for c in spec["ops"]:
        mx_decl = c["max_steps"]
        mx = T if mx_decl is None else mx_decl
        hard = min(T, mx)
        if c["kind"] == "energy":
            mn = round(T * 0.1) if c["min_steps"] is None else c["min_steps"]
            metric = energies
            def metric_at(t):
                return energies[t]
            cond = EnergyThresholdCondition(threshold=c["threshold"], min_steps=c["min_steps"], max_steps=c["max_steps"])
        else:
            spp, prev = c["spp"], c["prev_periods"]
            mn = (prev + 1) * spp if c["min_steps"] is None else c["min_steps"]
            period = spp * scn.dt
            cond = DetectorConvergenceCondition(
                detector_name="dconv", wave_character=fdtdx.WaveCharacter(period=period), prev_periods=prev,
                threshold=c["threshold"], min_steps=c["min_steps"], max_steps=c["max_steps"],
            )
        # first step at which the documented rule reports stop, on the plain trajectory
        first, knife = None, False
        for t in range(0, T + 1):
            if t >= hard:
                break
            if t < mn:
                continue
            if c["kind"] == "energy":
                m = energies[t]
            else:
                key0 = sorted(states[t][1].detector_states["dconv"])[0]
                rd = np.array(states[t][1].detector_states["dconv"][key0])[:, 0].real
                m = _spectral_distance(rd, t, spp, prev, T)
            noise = 0.0
            if c["kind"] == "convergence":
                # float32 round-off of the reduced readings (relative to the reduction of |x_i|) carried through the DFT magnitudes
                rsc = max([float(np.max(np.abs(rd))) if rd.size else 0.0] + list(_reduced_scales(spec, states[t]).values()))
                noise = 2e-4 * 2 * spp * rsc
            if abs(m - c["threshold"]) <= KNIFE * max(abs(c["threshold"]), 1e-300) + noise:
                knife = True
                break
            if m < c["threshold"]:
                first = t
                break
        if knife:
            stats["knife_edge_skipped"] += 1
            continue
        want = hard if first is None else first
        ticks = []
        try:
            t_stop, arr = fdtdx.run_fdtd(
                scn.arrays, scn.objects, scn.config, scn.key, stopping_condition=cond, show_progress=False,
                progress_callback=lambda s, tot, ticks=ticks: ticks.append((int(s), int(tot))),
            )
        except ValueError as e:
            stats["rejected_conditions"] = stats.get("rejected_conditions", 0) + 1
            continue
        t_stop = int(t_stop)
        stats["conditions"] += 1
        stats["sim_steps"] += t_stop
        which = "T" if want == T and first is None else "max_steps" if first is None else "metric"
        decided.append((c["kind"], which, want < mn if first is None else False))
        stats["fault_deadline_" + which] = stats.get("fault_deadline_" + which, 0) + 1
        if want < T:
            nontrivial = True
        info = {"condition": c, "got": t_stop, "want": want, "first_metric_stop": first, "min_steps": mn, "T": T}
        if t_stop != want:
            mon = "stopped_after_max_steps" if t_stop > hard else "stopped_before_min_steps" if (t_stop < mn and t_stop < hard) else "wrong_stop_step"
            viol.append({"monitor": mon, **info})
            continue
        d, k = dr.dict_rel_diff(dr.full_np(states[t_stop]), dr.full_np((t_stop, arr)), scales=_reduced_scales(spec, states[t_stop]))
        resid["state"] = max(resid["state"], d if np.isfinite(d) else 1e300)
        if not (d <= STATE_TOL):
            viol.append({"monitor": "stopped_state_differs_from_plain_run", "metric": "rel_diff", "value": d, "tolerance": STATE_TOL, "key": k, **info})
        stats["ticks_seen"] = stats.get("ticks_seen", 0) + len(ticks)
    stats["sim_time_fs"] = stats["sim_steps"] * scn.dt * 1e15
    sig = specgen.scene_signature(spec, sorted(set(decided)))
    digest = dr.digest_arrays(dr.full_np(states[-1])) + f":{stats['conditions']}:{dr.sig3(resid['state'])}:v{len(viol)}"
    return {"violations": viol, "stats": stats, "residuals": resid, "nontrivial": nontrivial, "signature": sig, "digest": digest}
