"""C26 — whenever placement succeeds, every constraint holds on the final grid slices.

Workload: a seeded constraint system over <= 7 boxes + the volume, emitted from a hidden ground-truth
placement (see `placement_common`).  Schedule: an explicit list of permutations of the object list and of
the constraint list.  Oracle (evaluated under *every* explored order on each successful placement):
objects inside the volume with positive size; every grid/real coordinate, position, size and extension
constraint and every partial shape / position re-evaluated by independent NumPy arithmetic on the final
slices, within the documented nearest-edge snap; axes that nothing constrains span the whole volume.
Failure to place is a legitimate outcome here (its order independence is C27).
"""
from __future__ import annotations

from checks import placement_common as pc
from fdsim import specgen

PROPERTY = "C26"
LEVEL = "exploration"
RUNS = {"quick": 600, "thorough": 8000}
SHRINK_BUDGET = {"quick": 250, "thorough": 1200}
RUN_TIMEOUT_S = 300
RULE = (
    "one run = one seeded constraint system: volume 3-12 cells per axis on a uniform grid (65%) or an explicit non-uniform "
    "RectilinearGrid (35%, real-coordinate constraints / real margins only; 10% of those add an index-space feature that must be rejected under every order), "
    "1-7 named UniformMaterialObjects (small systems favoured), per object-axis one of {free, size+position, two pinned sides, size only, one pinned side}; "
    "sizes from partial_grid_shape / partial_real_shape / size_relative_to (proportion, real and grid offsets, cross-axis) / same_size, positions from "
    "set_grid_coordinates / RealCoordinateConstraint / place_relative_to (anchors -1/0/+1/fractional, real and grid margins) / partial_real_position / "
    "extend_to (object or volume); real-valued inputs stay 0.2 cell from their exact value (>= 0.3 cell from a snapping tie); variants consistent (50%) / "
    "under-constrained / over-constrained consistent / over-constrained contradictory. Families kept apart (label computed structurally from the final system): "
    "well_posed = every size-constrained axis has a position and refers to an extent determinable before the extend-to-infinity fallback; general = anything the "
    "API accepts (even run indices target well_posed, odd ones general; 40% of the general ones embed the motif 'free A, B placed against A, C sized from B'). "
    "Schedule: all permutations of lists with <= 4 elements, else identity + reversal + seeded permutations up to K=8 (quick) / 40 (thorough), object and constraint "
    "permutations paired round-robin. non-trivial = at least one order placed successfully; distinct = family x grid kind x variant x constraint mechanisms used x "
    "object count class x outcome class")
REAL = ["resolve_object_constraints", "_apply_constraints_iteratively", "_extend_to_inf_if_possible", "RectilinearGrid.bounds_for_anchor / anchor_coordinate / coord_to_index / bounds_for_center",
        "SimulationObject.place_relative_to / size_relative_to / same_size / extend_to / set_grid_coordinates", "RealCoordinateConstraint", "UniformGrid.resolve"]
STUB = ["no arrays are allocated (resolve_object_constraints only, no place_objects)"]
ASSUMPTIONS = [
    "snapping rules are taken from the docstrings: nearest edge for coordinates / extensions, closest fitting interval for anchors and centres, "
    "nearest cell count on uniform grids, covering cell count measured from the lower domain edge on non-uniform grids",
    "generated real values are at least 0.3 cell away from every snapping tie; equality of distances is accepted within 1e-9 cell",
    "an axis with a size but no position is only required to have that size and to lie inside the volume",
]
TECHNIQUE = "deterministic simulation of the setup phase: seeded constraint systems x seeded list-order schedules against an independent arithmetic re-evaluation of every constraint"
LEVEL_TEXT = (
    "Seeded search over constraint systems and list orders; each successful placement under each explored order is re-checked constraint by constraint. "
    "A clean batch is evidence, not a proof; the order space is sampled above 4 elements."
)
LEVEL_NOTE = "oracle trusts only the documented snapping conventions; ground truth of the generator is never consulted by the oracle; no field arrays involved"

KNOWN_PREDICATES = dict(pc.KNOWN_C26)


def generate(rng, tier, index):
    return pc.generate_system(rng, tier, index)


def shrink(spec):
    return pc.shrink(spec)


def execute(spec):
    r = pc.execute_common(spec)
    stats = r["stats"]
    if r["rejected"]:
        return {"rejected": True, "nontrivial": False, "stats": stats, "digest": "rejected:" + r["digest"], "signature": ""}
    viol = r["c26"]
    for v in viol:
        stats["violations_" + v["monitor"]] = stats.get("violations_" + v["monitor"], 0) + 1
    if viol:
        stats[r["family"] + "_systems_with_violation"] = 1
    return {
        "violations": viol,
        "stats": stats,
        "residuals": {},
        "nontrivial": r["n_ok"] > 0,
        "signature": specgen.signature("C26", *r["signature_parts"]),
        "digest": r["digest"] + f":v{len(viol)}",
    }
