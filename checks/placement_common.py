"""Shared machinery of C26 (placement soundness) and C27 (order independence).

A *system* is a volume, up to 7 plain boxes and a list of constraint records (plain JSON).  The
generator draws a hidden ground-truth placement first and emits constraints that are consistent with
it under the documented snapping rules (every real-valued quantity is kept a fifth of a cell away from
a snapping tie), then optionally removes / adds constraints (under- / over-constrained variants).
The schedule is an explicit list of (object permutation, constraint permutation) pairs stored in the
spec.  `run_system` feeds every order to the real `fdtdx.resolve_object_constraints`;
`check_placement` re-evaluates every constraint by independent NumPy arithmetic on the final slices.

Nothing in the oracle reads the ground truth: a wrong guess of what the library "should" do with an
under-determined axis can only lower the success rate, never raise an alarm.
"""
from __future__ import annotations

import copy
import hashlib
import itertools
import json

import numpy as np

SPACING = 50e-9
VOL = "vol"
DELTA = 0.2  # real-valued quantities stay within this fraction of a cell of their exact value


# ====================================================================== grid arithmetic (pure numpy)


def edges_of(spec) -> list[np.ndarray]:
    g = spec["grid"]
    if g["kind"] == "rect":
        return [np.asarray(e, dtype=np.float64) for e in g["edges"]]
    h = g["spacing"]
    return [-(n * h) / 2.0 + h * np.arange(n + 1, dtype=np.float64) for n in spec["shape"]]


def is_uniform(spec) -> bool:
    return spec["grid"]["kind"] == "uniform"


def anchor(E, lo, hi, pos):
    """Documented anchor convention: -1 lower side, 0 centre, +1 upper side (linear in between)."""
    return E[lo] + 0.5 * (pos + 1.0) * (E[hi] - E[lo])


# ====================================================================== structural analysis


def sources(spec):
    """Per (object, axis): which inputs constrain its size / position.  Pure function of the spec."""
    src = {}
    for o in spec["objects"]:
        for a in range(3):
            src[(o["name"], a)] = {
                "pgs": o["pgs"][a] is not None,
                "prs": o["prs"][a] is not None,
                "prp": o["prp"][a] is not None,
                "size": [],  # (other, other_axis)
                "pos": [],  # other
                "coord": {"-": False, "+": False},
                "ext": {"-": [], "+": []},  # other name or None
            }
    for c in spec["constraints"]:
        k = c["kind"]
        if c["object"] == VOL:
            continue
        if k in ("grid_coord", "real_coord"):
            for a, s in zip(c["axes"], c["sides"]):
                src[(c["object"], a)]["coord"][s] = True
        elif k == "position":
            for a in c["axes"]:
                src[(c["object"], a)]["pos"].append(c["other"])
        elif k == "size":
            for a, b in zip(c["axes"], c["other_axes"]):
                src[(c["object"], a)]["size"].append((c["other"], b))
        elif k == "extend":
            src[(c["object"], c["axis"])]["ext"][c["direction"]].append(c["other"])
    return src


def has_position(s) -> bool:
    """Position / coordinate constraint or partial position on the axis (the known-finding wording)."""
    return bool(s["pos"]) or s["coord"]["-"] or s["coord"]["+"] or s["prp"]


def is_free(s) -> bool:
    return not (s["pgs"] or s["prs"] or s["prp"] or s["size"] or s["pos"] or s["coord"]["-"] or s["coord"]["+"] or s["ext"]["-"] or s["ext"]["+"])


def pattern_axes(spec) -> list[tuple[str, int]]:
    """(object, axis) with a SizeConstraint on that axis and no position on it."""
    src = sources(spec)
    return sorted(k for k, s in src.items() if s["size"] and not has_position(s))


def determinable_before_fallback(spec):
    """Least fixpoint of 'both bounds of (object, axis) follow from the inputs without the
    extend-to-infinity fallback'.  The volume is determinable by definition."""
    src = sources(spec)
    pre = {k: False for k in src}

    def P(name, a):
        return True if name == VOL else pre.get((name, a), False)

    changed = True
    while changed:
        changed = False
        for (name, a), s in src.items():
            if pre[(name, a)]:
                continue
            side = {}
            for d in "-+":
                side[d] = s["coord"][d] or any(o is None or P(o, a) for o in s["ext"][d])
            size = s["pgs"] or s["prs"] or any(P(o, b) for o, b in s["size"])
            anch = s["prp"] or any(P(o, a) for o in s["pos"])
            ok = (side["-"] and side["+"]) or (size and (side["-"] or side["+"] or anch))
            if ok:
                pre[(name, a)] = True
                changed = True
    return pre


def family_of(spec) -> str:
    """'well_posed' iff every size-constrained axis also has a position and every size relation
    refers to an extent that is determinable before the fallback; else 'general'."""
    src = sources(spec)
    pre = determinable_before_fallback(spec)
    for (name, a), s in src.items():
        if not s["size"]:
            continue
        if not has_position(s):
            return "general"
        for o, b in s["size"]:
            if o != VOL and not pre.get((o, b), False):
                return "general"
    return "well_posed"


# ====================================================================== generator


def _choice(r, seq, p=None):
    if p is not None:
        p = np.asarray(p, dtype=float)
        p = p / p.sum()
    return seq[int(r.choice(len(seq), p=p))]


def _delta(r, w):
    return float(r.uniform(-DELTA, DELTA) * w)


def _rand_interval(r, n):
    s = int(r.integers(1, n + 1))
    u = r.uniform()
    if u < 0.2:
        lo = 0
    elif u < 0.4:
        lo = n - s
    else:
        lo = int(r.integers(0, n - s + 1))
    return lo, lo + s


def _rand_pos(r):
    return float(_choice(r, [-1.0, 0.0, 1.0])) if r.uniform() < 0.7 else float(np.round(r.uniform(-1, 1), 2))


def _length_for_cells(r, E, s, uniform):
    """A physical length that the documented rule maps to `s` cells, away from its knife edges.

    uniform grid: nearest cell count; non-uniform: cells counted from the lower domain edge, upper snap."""
    if uniform:
        h = E[1] - E[0]
        return float(s * h + _delta(r, h))
    w = E[s] - E[s - 1]
    if r.uniform() < 0.5:
        # anywhere inside cell s: the non-uniform rule (cover the length, except for an exact edge hit within 1e-6 of the
        # smallest cell) has no knife edge inside a cell, so ends just above an edge are legitimate inputs too
        return float(E[s - 1] + r.uniform(0.03, 0.97) * w - E[0])
    return float(0.5 * (E[s - 1] + E[s]) - E[0] + _delta(r, w))


def _min_w(E, idx):
    n = len(E) - 1
    ws = []
    if idx > 0:
        ws.append(E[idx] - E[idx - 1])
    if idx < n:
        ws.append(E[idx + 1] - E[idx])
    return min(ws)


class _Gen:
    def __init__(self, r, target_family):
        self.r = r
        self.target = target_family
        self.shape = [int(r.integers(3, 13)) for _ in range(3)]
        if r.uniform() < 0.35:
            edges = []
            for n in self.shape:
                w = SPACING * np.exp(r.uniform(-0.5 * np.log(2.0), 0.5 * np.log(2.0), size=n))
                if r.uniform() < 0.5:
                    # geometrically graded axis (cells grow or shrink steadily): the mean edge coordinate is then far from the
                    # midpoint of the domain, unlike for independently jittered widths
                    g = float(r.uniform(1.05, 1.25)) ** (1 if r.uniform() < 0.5 else -1)
                    w = SPACING * np.clip(g ** (np.arange(n) - n / 2.0), 0.45, 2.2)
                e = np.concatenate([[0.0], np.cumsum(w)])
                edges.append([float(x) for x in (e - e[-1] / 2)])
            self.grid = {"kind": "rect", "edges": edges}
        else:
            self.grid = {"kind": "uniform", "spacing": SPACING}
        self.uniform = self.grid["kind"] == "uniform"
        self.E = edges_of({"grid": self.grid, "shape": self.shape})
        self.wmin = [float(np.min(np.diff(e))) for e in self.E]
        self.truth = {VOL: [[0, n] for n in self.shape]}
        self.pre = {(VOL, a): True for a in range(3)}
        self.chained = set()  # (object, axis) placed relative to something only the fallback determines
        self.objects = []
        self.cons = []

    # ---- emit helpers (all consistent with the current truth)

    def coord_con(self, name, a, side, idx, force_real=False):
        r = self.r
        if self.uniform and not force_real and r.uniform() < 0.55:
            return {"kind": "grid_coord", "object": name, "axes": [a], "sides": [side], "coordinates": [int(idx)]}
        E = self.E[a]
        return {"kind": "real_coord", "object": name, "axes": [a], "sides": [side], "coordinates": [float(E[idx] + _delta(r, _min_w(E, idx)))]}

    def pos_con(self, name, a, lo, hi, other):
        r = self.r
        E = self.E[a]
        olo, ohi = self.truth[other][a]
        p_own, p_oth = _rand_pos(r), _rand_pos(r)
        want = anchor(E, lo, hi, p_own) + _delta(r, self.wmin[a])
        diff = want - anchor(E, olo, ohi, p_oth)
        g = 0
        if self.uniform and r.uniform() < 0.4:
            g = int(r.integers(-3, 4))
        h = self.grid.get("spacing", 0.0)
        return {"kind": "position", "object": name, "other": other, "axes": [a], "own_positions": [p_own], "other_positions": [p_oth],
                "margins": [float(diff - g * h)], "grid_margins": [g]}

    def size_con(self, name, a, s, other, b):
        r = self.r
        olo, ohi = self.truth[other][b]
        L = float(self.E[b][ohi] - self.E[b][olo])
        target = _length_for_cells(r, self.E[a], s, self.uniform)
        p = float(_choice(r, [1.0, 0.5, 2.0, float(np.round(r.uniform(0.2, 2.0), 3))], p=[0.4, 0.15, 0.15, 0.3]))
        g = 0
        if self.uniform and r.uniform() < 0.4:
            g = int(r.integers(-2, 3))
        h = self.grid.get("spacing", 0.0)
        return {"kind": "size", "object": name, "other": other, "axes": [a], "other_axes": [b], "proportions": [p],
                "offsets": [float(target - L * p - g * h)], "grid_offsets": [g]}

    def ext_con(self, name, a, side, idx, other):
        r = self.r
        if other is None:
            return {"kind": "extend", "object": name, "other": None, "axis": a, "direction": side, "other_position": None, "offset": 0.0, "grid_offset": 0}
        E = self.E[a]
        olo, ohi = self.truth[other][a]
        op = None if r.uniform() < 0.4 else _rand_pos(r)
        eff = op if op is not None else (-1.0 if side == "+" else 1.0)
        want = E[idx] + _delta(r, _min_w(E, idx))
        g = 0
        if self.uniform and r.uniform() < 0.4:
            g = int(r.integers(-2, 3))
        h = self.grid.get("spacing", 0.0)
        return {"kind": "extend", "object": name, "other": other, "axis": a, "direction": side, "other_position": op,
                "offset": float(want - anchor(E, olo, ohi, eff) - g * h), "grid_offset": g}

    def others(self, name):
        return [VOL] + [o["name"] for o in self.objects if o["name"] != name]

    # ---- one object

    def add_object(self, i, force=None):
        """`force` = {axis: {"mode", "sk", "size_ref", "pos_kind", "pos_ref"}} pins some choices (motifs)."""
        force = force or {}
        r = self.r
        name = f"o{i}"
        obj = {"name": name, "pgs": [None] * 3, "prs": [None] * 3, "prp": [None] * 3}
        self.truth[name] = [None] * 3
        general = self.target == "general"
        for a in range(3):
            n = self.shape[a]
            E = self.E[a]
            mode = _choice(r, ["free", "size_pos", "two_sided", "size_only", "one_sided"], p=[0.2, 0.36, 0.18, 0.2 if general else 0.07, 0.1])
            f = force.get(a, {})
            mode = f.get("mode", mode)
            lo, hi = _rand_interval(r, n)
            oth = self.others(name)
            if mode == "free":
                self.truth[name][a] = [0, n]
                self.pre[(name, a)] = False
                continue

            def side_con(side, idx):
                """Returns (constraint, truth index actually pinned, determinable-before-fallback)."""
                k = _choice(r, ["coord", "ext_vol", "ext_obj"], p=[0.6, 0.15, 0.25])
                if k == "ext_vol":
                    idx = 0 if side == "-" else n
                    return self.ext_con(name, a, side, idx, None), idx, True
                if k == "ext_obj":
                    o = _choice(r, oth)
                    return self.ext_con(name, a, side, idx, o), idx, self.pre[(o, a)]
                return self.coord_con(name, a, side, idx), idx, True

            if mode == "two_sided":
                c0, lo, p0 = side_con("-", lo)
                if lo >= hi:
                    hi = min(n, lo + 1)
                c1, hi, p1 = side_con("+", hi)
                if hi <= lo:  # extension to the volume forced an empty interval: re-pin the lower side
                    lo = hi - 1
                    c0, p0 = self.coord_con(name, a, "-", lo), True
                self.cons += [c0, c1]
                self.truth[name][a] = [lo, hi]
                self.pre[(name, a)] = p0 and p1
                continue
            if mode == "one_sided":
                side = _choice(r, ["-", "+"])
                if side == "-":
                    lo = min(lo, n - 1)
                    c, lo, _ = side_con("-", lo)
                    lo = min(lo, n - 1)
                    hi = n
                else:
                    hi = max(hi, 1)
                    c, hi, _ = side_con("+", hi)
                    hi = max(hi, 1)
                    lo = 0
                self.cons.append(c)
                self.truth[name][a] = [lo, hi]
                self.pre[(name, a)] = False
                continue

            # modes with an explicit size
            s = hi - lo
            pos_kind = None
            if mode == "size_pos":
                pos_kind = _choice(r, ["coord", "rel", "prp", "ext"], p=[0.3, 0.4, 0.15, 0.15] if self.uniform else [0.22, 0.3, 0.33, 0.15])  # physical positions matter most on graded grids (the domain centre is not the mean edge)
                pos_kind = f.get("pos_kind", pos_kind)
            else:
                lo, hi = 0, s  # documented: known size without position starts at the lower volume edge
            # size source
            size_kinds, size_p = ["pgs", "prs", "rel"], ([0.2, 0.1, 0.7] if (general and mode == "size_only") else [0.35, 0.2, 0.45])
            sk = _choice(r, size_kinds, p=size_p)
            sk = f.get("sk", sk)
            size_pre = True
            if sk == "rel" and "size_ref" in f:
                o, b = f["size_ref"]
                self.cons.append(self.size_con(name, a, s, o, b))
                size_pre = self.pre[(o, b)]
            elif sk == "rel":
                cands = [(o, b) for o in oth for b in range(3)]
                # prefer the same axis
                cands_same = [(o, b) for (o, b) in cands if b == a]
                if self.target == "well_posed":
                    cands = [(o, b) for (o, b) in cands if self.pre[(o, b)]]
                    cands_same = [(o, b) for (o, b) in cands_same if self.pre[(o, b)]]
                    if mode == "size_only" or pos_kind == "ext":  # an extension alone is not a "position" in the known-finding wording
                        cands = cands_same = []
                if general and r.uniform() < 0.6:  # favour extents that only the fallback can determine
                    late = [(o, b) for (o, b) in cands if (o, b) in self.chained] if r.uniform() < 0.6 else []
                    late = late or [(o, b) for (o, b) in cands if not self.pre[(o, b)]]
                    if late:
                        cands = late
                        cands_same = [(o, b) for (o, b) in late if b == a]
                if not cands:
                    sk = "pgs"
                else:
                    o, b = _choice(r, cands_same) if (cands_same and r.uniform() < 0.7) else _choice(r, cands)
                    self.cons.append(self.size_con(name, a, s, o, b))
                    size_pre = self.pre[(o, b)]
            if sk == "pgs":
                obj["pgs"][a] = int(s)
            elif sk == "prs":
                obj["prs"][a] = _length_for_cells(r, E, s, self.uniform)
            pos_pre = False
            if pos_kind == "coord":
                side = _choice(r, ["-", "+"])
                self.cons.append(self.coord_con(name, a, side, lo if side == "-" else hi))
                pos_pre = True
            elif pos_kind == "rel":
                o = _choice(r, oth)
                if general and r.uniform() < 0.5:
                    late = [x for x in oth if not self.pre[(x, a)]]
                    if late:
                        o = _choice(r, late)
                o = f.get("pos_ref", o)
                self.cons.append(self.pos_con(name, a, lo, hi, o))
                pos_pre = self.pre[(o, a)]
                if not pos_pre:
                    self.chained.add((name, a))
            elif pos_kind == "prp":
                centre = 0.5 * (E[lo] + E[hi]) - 0.5 * (E[0] + E[-1])
                obj["prp"][a] = float(centre + _delta(r, self.wmin[a]))
                pos_pre = True
            elif pos_kind == "ext":
                side = _choice(r, ["-", "+"])
                if r.uniform() < 0.3:  # to the volume boundary: shifts the truth
                    if side == "-":
                        lo, hi = 0, s
                    else:
                        lo, hi = n - s, n
                    self.cons.append(self.ext_con(name, a, side, 0 if side == "-" else n, None))
                    pos_pre = True
                else:
                    o = _choice(r, oth)
                    self.cons.append(self.ext_con(name, a, side, lo if side == "-" else hi, o))
                    pos_pre = self.pre[(o, a)]
            self.truth[name][a] = [lo, hi]
            self.pre[(name, a)] = bool(size_pre and pos_pre)
        self.objects.append(obj)

    # ---- variants

    def extra_consistent(self):
        """A redundant constraint that the ground truth satisfies."""
        r = self.r
        o = _choice(r, self.objects)
        name, a = o["name"], int(r.integers(0, 3))
        lo, hi = self.truth[name][a]
        oth = self.others(name)
        k = _choice(r, ["coord", "position", "size", "extend"])
        if k == "coord":
            side = _choice(r, ["-", "+"])
            return self.coord_con(name, a, side, lo if side == "-" else hi)
        if k == "position":
            return self.pos_con(name, a, lo, hi, _choice(r, oth))
        if k == "size":
            return self.size_con(name, a, hi - lo, _choice(r, oth), int(r.integers(0, 3)))
        side = _choice(r, ["-", "+"])
        return self.ext_con(name, a, side, lo if side == "-" else hi, _choice(r, oth))

    def extra_inconsistent(self):
        """A constraint that contradicts the ground truth by at least one cell."""
        r = self.r
        o = _choice(r, self.objects)
        name, a = o["name"], int(r.integers(0, 3))
        n = self.shape[a]
        lo, hi = self.truth[name][a]
        k = _choice(r, ["coord", "position", "size"])
        if k == "coord":
            side = _choice(r, ["-", "+"])
            idx = lo if side == "-" else hi
            alt = [j for j in range(0, n + 1) if j != idx]
            return self.coord_con(name, a, side, _choice(r, alt))
        if k == "position":
            s = hi - lo
            alt = [j for j in range(0, n - s + 1) if j != lo]
            if not alt:
                return self.coord_con(name, a, "-", lo + 1 if lo + 1 <= n else lo - 1)
            l2 = _choice(r, alt)
            return self.pos_con(name, a, l2, l2 + s, _choice(r, self.others(name)))
        alt = [j for j in range(1, n + 1) if j != hi - lo]
        if not alt:
            return self.coord_con(name, a, "-", lo + 1 if lo + 1 <= n else lo - 1)
        return self.size_con(name, a, _choice(r, alt), _choice(r, self.others(name)), int(r.integers(0, 3)))


def _merge_multi_axis(r, cons):
    """Fold some single-axis records into the multi-axis form of the same API call."""
    out, used = [], set()
    for i, c in enumerate(cons):
        if i in used:
            continue
        c = copy.deepcopy(c)
        if c["kind"] in ("position", "size", "grid_coord", "real_coord") and r.uniform() < 0.5:
            for j in range(i + 1, len(cons)):
                d = cons[j]
                if j in used or d["kind"] != c["kind"] or d["object"] != c["object"] or d.get("other") != c.get("other"):
                    continue
                if c["kind"] in ("position", "size") and set(d["axes"]) & set(c["axes"]):
                    continue
                for key in ("axes", "sides", "coordinates", "own_positions", "other_positions", "margins", "grid_margins", "other_axes", "proportions", "offsets", "grid_offsets"):
                    if key in c:
                        c[key] = c[key] + d[key]
                used.add(j)
        out.append(c)
    return out


def make_orders(r, n_obj, n_con, K):
    """Explicit schedule: list of [object permutation, constraint permutation].

    All permutations of a list with <= 4 elements, K seeded ones otherwise; identity and full reversal first."""

    def perms(n):
        if n <= 4:
            ps = [list(p) for p in itertools.permutations(range(n))]
            rest = ps[1:]
            order = r.permutation(len(rest))
            return [ps[0]] + [rest[i] for i in order]
        ps = [list(range(n)), list(range(n))[::-1]]
        seen = {tuple(p) for p in ps}
        tries = 0
        while len(ps) < K and tries < 10 * K:
            p = [int(x) for x in r.permutation(n)]
            tries += 1
            if tuple(p) not in seen:
                seen.add(tuple(p))
                ps.append(p)
        return ps

    po, pc = perms(n_obj), perms(max(n_con, 1))
    if n_con == 0:
        pc = [[]]
    m = max(len(po), len(pc))
    return [[po[i % len(po)], pc[i % len(pc)]] for i in range(m)]


def generate_system(rng, tier, index):
    target = "well_posed" if index % 2 == 0 else "general"
    g = _Gen(rng, target)
    n = int(_choice(rng, [1, 2, 3, 4, 5, 6, 7], p=[0.1, 0.2, 0.25, 0.2, 0.1, 0.08, 0.07]))
    motif = None
    if target == "general" and rng.uniform() < 0.4:
        # motif: A free on axis a; B (static size) placed against A; C sized relative to B's extent on a
        n = max(n, 3)
        a = int(rng.integers(0, 3))
        at = int(rng.integers(0, n - 2))
        motif = {at: {a: {"mode": "free"}}, at + 1: {a: {"mode": "size_pos", "sk": _choice(rng, ["pgs", "prs"]), "pos_kind": "rel", "pos_ref": f"o{at}"}},
                 at + 2: {a: {"mode": _choice(rng, ["size_only", "size_pos"], p=[0.7, 0.3]), "sk": "rel", "size_ref": (f"o{at + 1}", a)}}}
    chain_axis = None
    if motif is None and rng.uniform() < 0.15:
        # motif: a long dependency chain on one axis - every link copies the extent of its predecessor (size constraint) and is
        # positioned against it; the number of solver sweeps needed then depends on the order of the constraint list
        # (dependency order settles a link per in-pass propagation, reverse order needs about two sweeps per link)
        n = int(rng.integers(5, 10))
        chain_axis = a = int(rng.integers(0, 3))
        motif = {0: {a: {"mode": "size_pos", "sk": _choice(rng, ["pgs", "prs"]), "pos_kind": _choice(rng, ["coord", "prp"])}}}
        for i in range(1, n):
            motif[i] = {a: {"mode": "size_pos", "sk": "rel", "size_ref": (f"o{i - 1}", a), "pos_kind": "rel", "pos_ref": f"o{i - 1}"}}
            if rng.uniform() < 0.6:  # open transverse axes (extension to infinity), as in a stack of slabs
                for b in range(3):
                    if b != a:
                        motif[i][b] = {"mode": "free"}
    for i in range(n):
        g.add_object(i, None if motif is None else motif.get(i))
    variant = _choice(rng, ["consistent", "under", "over_consistent", "over_inconsistent"], p=[0.5, 0.17, 0.18, 0.15])
    if chain_axis is not None and rng.uniform() < 0.7:
        variant = "consistent"
    cons = g.cons
    objects = g.objects
    if variant == "under":
        for _ in range(int(rng.integers(1, 3))):
            slots = [("c", i) for i in range(len(cons))] + [("f", o["name"], k, a) for o in objects for k in ("pgs", "prs", "prp") for a in range(3) if o[k][a] is not None]
            if not slots:
                break
            s = _choice(rng, slots)
            if s[0] == "c":
                cons.pop(s[1])
            else:
                next(o for o in objects if o["name"] == s[1])[s[2]][s[3]] = None
    elif variant == "over_consistent":
        for _ in range(int(rng.integers(1, 3))):
            cons.append(g.extra_consistent())
    contradiction = None
    if variant == "over_inconsistent":
        bad = g.extra_inconsistent()
        cons.append(bad)
        # the deliberately contradictory input: everything that constrains this (object, axis) forms the contradictory pair
        contradiction = {"object": bad["object"], "axis": bad["axis"] if bad["kind"] == "extend" else bad["axes"][0], "constraint": copy.deepcopy(bad)}
    if not g.uniform and cons and rng.uniform() < 0.1:
        # index-space feature on a non-uniform grid: documented rejection, must be rejected under every order
        variant = "index_space_on_nonuniform"
        o = _choice(rng, objects)
        a = int(rng.integers(0, 3))
        lo, hi = g.truth[o["name"]][a]
        if rng.uniform() < 0.5:
            cons.append({"kind": "grid_coord", "object": o["name"], "axes": [a], "sides": ["-"], "coordinates": [int(lo)]})
        else:
            c = g.pos_con(o["name"], a, lo, hi, VOL)
            c["grid_margins"] = [int(_choice(rng, [-2, -1, 1, 2]))]
            cons.append(c)
    cons = _merge_multi_axis(rng, cons)
    cons = [cons[i] for i in rng.permutation(len(cons))] if cons else []
    names = [VOL] + [o["name"] for o in objects]
    names = [names[i] for i in rng.permutation(len(names))]
    K = 8 if tier == "quick" else 40
    spec = {
        "shape": g.shape,
        "grid": g.grid,
        "volume_mode": "grid" if (not g.uniform or rng.uniform() < 0.7) else "real",
        "objects": objects,
        "object_list": names,
        "constraints": cons,
        "variant": variant,
        "target_family": target,
        "truth": g.truth,
    }
    if contradiction is not None:
        spec["contradiction"] = contradiction
    if spec["volume_mode"] == "real":
        spec["volume_real_shape"] = [float(nn * SPACING + _delta(rng, SPACING)) for nn in g.shape]
    spec["family"] = family_of(spec)
    spec["orders"] = make_orders(rng, len(names), len(cons), K)
    if chain_axis is not None and len(cons) >= 2:
        spec["chain_axis"] = chain_axis

        def rank(name):
            return -1 if name == VOL else int(name[1:])

        dep_c = sorted(range(len(cons)), key=lambda j: (rank(cons[j]["object"]), j))
        dep_o = sorted(range(len(names)), key=lambda j: rank(names[j]))
        # dependency order and exact reverse dependency order of both lists, next to the seeded permutations
        spec["orders"] += [[dep_o, dep_c], [dep_o[::-1], dep_c[::-1]], [dep_o, dep_c[::-1]]]
    return spec


# ====================================================================== shrinker


def _drop_index_from_orders(orders, which, idx):
    out = []
    for po, pc in orders:
        if which == "o":
            po = [j - (1 if j > idx else 0) for j in po if j != idx]
        else:
            pc = [j - (1 if j > idx else 0) for j in pc if j != idx]
        out.append([po, pc])
    return out


def _dedupe_orders(orders):
    seen, out = set(), []
    for o in orders:
        k = json.dumps(o)
        if k not in seen:
            seen.add(k)
            out.append(o)
    return out


def shrink(spec):
    out = []
    orders = spec["orders"]
    # fewer orders first: pairs (reference, j), then halves
    if len(orders) > 2:
        for j in range(1, len(orders)):
            s = copy.deepcopy(spec)
            s["orders"] = [orders[0], orders[j]]
            out.append(s)
        for j in range(1, len(orders)):
            for i in range(1, j):
                s = copy.deepcopy(spec)
                s["orders"] = [orders[i], orders[j]]
                out.append(s)
                if len(out) > 40:
                    break
            if len(out) > 40:
                break
    # drop an object together with everything that mentions it
    for name in [n for n in spec["object_list"] if n != VOL]:
        s = copy.deepcopy(spec)
        oi = s["object_list"].index(name)
        s["object_list"].pop(oi)
        s["objects"] = [o for o in s["objects"] if o["name"] != name]
        s["truth"].pop(name, None)
        s["orders"] = _drop_index_from_orders(s["orders"], "o", oi)
        ci = 0
        while ci < len(s["constraints"]):
            c = s["constraints"][ci]
            if c["object"] == name or c.get("other") == name:
                s["constraints"].pop(ci)
                s["orders"] = _drop_index_from_orders(s["orders"], "c", ci)
            else:
                ci += 1
        s["orders"] = _dedupe_orders(s["orders"])
        out.append(s)
    # drop one constraint
    for ci in range(len(spec["constraints"])):
        s = copy.deepcopy(spec)
        s["constraints"].pop(ci)
        s["orders"] = _dedupe_orders(_drop_index_from_orders(s["orders"], "c", ci))
        out.append(s)
    # drop one axis entry of a multi-axis constraint
    for ci, c in enumerate(spec["constraints"]):
        if c["kind"] != "extend" and len(c["axes"]) > 1:
            for k in range(len(c["axes"])):
                s = copy.deepcopy(spec)
                for key in ("axes", "sides", "coordinates", "own_positions", "other_positions", "margins", "grid_margins", "other_axes", "proportions", "offsets", "grid_offsets"):
                    if key in s["constraints"][ci]:
                        s["constraints"][ci][key].pop(k)
                out.append(s)
    # clear one partial field
    for oi, o in enumerate(spec["objects"]):
        for k in ("pgs", "prs", "prp"):
            for a in range(3):
                if o[k][a] is not None:
                    s = copy.deepcopy(spec)
                    s["objects"][oi][k][a] = None
                    out.append(s)
    # simplify numbers: zero grid margins / offsets folded into the real ones is not value preserving -> skip
    for s in out:
        s["family"] = family_of(s)
    return out


# ====================================================================== execution


def build_system(spec):
    import fdtdx

    from fdsim import scene as sc

    grid = sc.build_grid(spec)
    config = fdtdx.SimulationConfig(time=1e-15, grid=grid, backend="cpu")

    def tup(v):
        return tuple(v)

    if spec.get("volume_mode", "grid") == "real":
        vol = fdtdx.SimulationVolume(name=VOL, partial_real_shape=tup(spec["volume_real_shape"]))
    else:
        vol = fdtdx.SimulationVolume(name=VOL, partial_grid_shape=tup(spec["shape"]))
    objs = {VOL: vol}
    for o in spec["objects"]:
        objs[o["name"]] = fdtdx.UniformMaterialObject(
            name=o["name"], material=fdtdx.Material(), partial_grid_shape=tup(o["pgs"]), partial_real_shape=tup(o["prs"]), partial_real_position=tup(o["prp"])
        )
    cons = []
    for c in spec["constraints"]:
        me = objs[c["object"]]
        k = c["kind"]
        if k == "grid_coord":
            cons.append(me.set_grid_coordinates(axes=tup(c["axes"]), sides=tup(c["sides"]), coordinates=tup(int(x) for x in c["coordinates"])))
        elif k == "real_coord":
            cons.append(fdtdx.RealCoordinateConstraint(object=me.name, axes=tup(c["axes"]), sides=tup(c["sides"]), coordinates=tup(float(x) for x in c["coordinates"])))
        elif k == "position":
            cons.append(me.place_relative_to(objs[c["other"]], axes=tup(c["axes"]), own_positions=tup(c["own_positions"]), other_positions=tup(c["other_positions"]),
                                             margins=tup(c["margins"]), grid_margins=tup(int(x) for x in c["grid_margins"])))
        elif k == "size":
            if c["axes"] == c["other_axes"] and all(p == 1.0 for p in c["proportions"]):
                cons.append(me.same_size(objs[c["other"]], axes=tup(c["axes"]), offsets=tup(c["offsets"]), grid_offsets=tup(int(x) for x in c["grid_offsets"])))
            else:
                cons.append(me.size_relative_to(objs[c["other"]], axes=tup(c["axes"]), other_axes=tup(c["other_axes"]), proportions=tup(c["proportions"]),
                                                offsets=tup(c["offsets"]), grid_offsets=tup(int(x) for x in c["grid_offsets"])))
        elif k == "extend":
            other = None if c["other"] is None else objs[c["other"]]
            cons.append(me.extend_to(other, axis=int(c["axis"]), direction=c["direction"], other_position=c["other_position"], offset=float(c["offset"]), grid_offset=int(c["grid_offset"])))
        else:
            from fdsim import env

            raise env.HarnessError(f"unknown constraint kind {k}")
    return config, objs, cons


DOCUMENTED = (ValueError, NotImplementedError)


def run_system(spec):
    """Feed every order of the schedule to the real solver.

    Returns a list of outcomes {"ok": bool, "slices": {name: [[lo,hi]x3]}|None, "errors": {name: msg}, "escaped": str|None}."""
    import fdtdx

    config, objs, cons = build_system(spec)
    names = spec["object_list"]
    outs = []
    for po, pc in spec["orders"]:
        olist = [objs[names[i]] for i in po]
        clist = [cons[i] for i in pc]
        try:
            slices, errors = fdtdx.resolve_object_constraints(objects=olist, constraints=clist, config=config)
        except Exception as e:  # escaped instead of being reported in `errors`
            if not (isinstance(e, DOCUMENTED) or type(e) is Exception):
                outs.append({"ok": False, "slices": None, "errors": {}, "escaped": f"{type(e).__name__}: {e}"[:300], "unexpected": True, "exc": e})
            else:
                outs.append({"ok": False, "slices": None, "errors": {}, "escaped": f"{type(e).__name__}: {e}"[:300], "unexpected": False})
            continue
        errs = {k: str(v) for k, v in errors.items() if v}
        ok = not errs
        sl = None
        if ok:
            sl = {k: [[v[a][0], v[a][1]] for a in range(3)] for k, v in slices.items()}
            if any(x is None for v in sl.values() for ax in v for x in ax):
                ok = False  # cannot happen when errors are empty; guarded so the oracle never sees None
                errs = {"?": "unresolved bound without error message"}
        outs.append({"ok": ok, "slices": sl, "errors": errs, "escaped": None})
    return outs


def expected_cells(E, target, uniform):
    """Documented physical-length -> cell-count rule; returns (set of acceptable counts)."""
    n = len(E) - 1
    d = np.abs((E - E[0]) - target)
    if uniform:
        best = float(np.min(d))
        return {int(j) for j in range(n + 1) if d[j] <= best + 1e-9 * (E[1] - E[0])}
    # non-uniform: exact edge hit -> that edge; else enough cells (from the lower domain edge) to cover
    j0 = int(np.argmin(d))
    wmin = float(np.min(np.diff(E)))
    acc = set()
    if d[j0] < 1e-5 * wmin:
        acc.add(j0)
    cover = [j for j in range(n + 1) if E[j] - E[0] >= target - 1e-9 * wmin]
    acc.add(min(cover) if cover else n)
    return acc


def check_placement(spec, slices) -> list[dict]:
    """Independent re-evaluation of one successful placement.  Returns violation dicts (no 'order' key)."""
    viol = []
    E3 = edges_of(spec)
    uniform = is_uniform(spec)
    h = spec["grid"].get("spacing", 0.0)
    shape = spec["shape"]
    tol = [1e-9 * float(np.min(np.diff(E))) for E in E3]

    def V(monitor, **kw):
        viol.append({"monitor": monitor, **kw})

    # volume and containment
    if slices.get(VOL) != [[0, n] for n in shape]:
        V("outside_volume", object=VOL, got=slices.get(VOL), want=[[0, n] for n in shape])
    for name, sl in slices.items():
        for a in range(3):
            lo, hi = sl[a]
            if not (0 <= lo < hi <= shape[a]):
                V("outside_volume", object=name, axis=a, got=[lo, hi], volume=[0, shape[a]])
    if viol:
        return viol  # index arithmetic below assumes valid indices

    def nearest_ok(E, idx, coord, t):
        return abs(E[idx] - coord) <= float(np.min(np.abs(E - coord))) + t

    def anchor_ok(E, lo, hi, pos, target, t):
        s = hi - lo
        n = len(E) - 1
        los = np.arange(0, n - s + 1)
        anchors = E[los] + 0.5 * (pos + 1.0) * (E[los + s] - E[los])
        best = float(np.min(np.abs(anchors - target)))
        return abs(anchor(E, lo, hi, pos) - target) <= best + t, best

    src = sources(spec)
    for o in spec["objects"]:
        name = o["name"]
        sl = slices[name]
        for a in range(3):
            lo, hi = sl[a]
            E = E3[a]
            if o["pgs"][a] is not None and hi - lo != o["pgs"][a]:
                V("violated_partial_shape", object=name, axis=a, got=hi - lo, want=o["pgs"][a], field="partial_grid_shape")
            elif o["pgs"][a] is None and o["prs"][a] is not None:
                acc = expected_cells(E, o["prs"][a], uniform)
                if hi - lo not in acc:
                    V("violated_partial_shape", object=name, axis=a, got=hi - lo, want=sorted(acc), field="partial_real_shape")
            if o["prp"][a] is not None:
                target = o["prp"][a] + 0.5 * (E[0] + E[-1])
                ok, best = anchor_ok(E, lo, hi, 0.0, target, tol[a])
                if not ok:
                    V("violated_partial_position", object=name, axis=a, got=[lo, hi], centre_error=float(abs(anchor(E, lo, hi, 0.0) - target)), best_possible=best)
            if is_free(src[(name, a)]) and [lo, hi] != [0, shape[a]]:
                V("free_axis_not_spanning", object=name, axis=a, got=[lo, hi], want=[0, shape[a]])

    for ci, c in enumerate(spec["constraints"]):
        k = c["kind"]
        name = c["object"]
        sl = slices[name]
        if k == "grid_coord":
            for a, s, x in zip(c["axes"], c["sides"], c["coordinates"]):
                got = sl[a][0 if s == "-" else 1]
                if got != x:
                    V("violated_grid_coord", constraint=ci, object=name, axis=a, side=s, got=got, want=x)
        elif k == "real_coord":
            for a, s, x in zip(c["axes"], c["sides"], c["coordinates"]):
                got = sl[a][0 if s == "-" else 1]
                if not nearest_ok(E3[a], got, x, tol[a]):
                    V("violated_real_coord", constraint=ci, object=name, axis=a, side=s, got=got, want=int(np.argmin(np.abs(E3[a] - x))))
        elif k == "position":
            osl = slices[c["other"]]
            for a, po, pt, m, g in zip(c["axes"], c["own_positions"], c["other_positions"], c["margins"], c["grid_margins"]):
                E = E3[a]
                target = anchor(E, osl[a][0], osl[a][1], pt) + m + g * h
                ok, best = anchor_ok(E, sl[a][0], sl[a][1], po, target, tol[a])
                if not ok:
                    V("violated_position", constraint=ci, object=name, other=c["other"], axis=a, got=sl[a], anchor_error=float(abs(anchor(E, sl[a][0], sl[a][1], po) - target)), best_possible=best)
        elif k == "size":
            osl = slices[c["other"]]
            for a, b, p, off, g in zip(c["axes"], c["other_axes"], c["proportions"], c["offsets"], c["grid_offsets"]):
                L = float(E3[b][osl[b][1]] - E3[b][osl[b][0]])
                target = L * p + off + g * h
                acc = expected_cells(E3[a], target, uniform)
                if sl[a][1] - sl[a][0] not in acc:
                    V("violated_size", constraint=ci, object=name, other=c["other"], axis=a, other_axis=b, got=sl[a][1] - sl[a][0], want=sorted(acc), target_cells=float(target / (h or np.min(np.diff(E3[a])))))
        elif k == "extend":
            a = c["axis"]
            s = c["direction"]
            got = sl[a][0 if s == "-" else 1]
            if c["other"] is None:
                want = 0 if s == "-" else shape[a]
                if got != want:
                    V("violated_extension", constraint=ci, object=name, axis=a, side=s, got=got, want=want, to="volume")
            else:
                osl = slices[c["other"]]
                op = c["other_position"]
                if op is None:
                    op = -1.0 if s == "+" else 1.0
                coord = anchor(E3[a], osl[a][0], osl[a][1], op) + c["offset"] + c["grid_offset"] * h
                if not nearest_ok(E3[a], got, coord, tol[a]):
                    V("violated_extension", constraint=ci, object=name, axis=a, side=s, got=got, want=int(np.argmin(np.abs(E3[a] - coord))), to=c["other"])
    return viol


def kinds_used(spec) -> list[str]:
    ks = set()
    for c in spec["constraints"]:
        k = c["kind"]
        if k == "position":
            ks.add("position")
            if any(c["grid_margins"]):
                ks.add("grid_margin")
            if any(p not in (-1.0, 0.0, 1.0) for p in c["own_positions"] + c["other_positions"]):
                ks.add("frac_anchor")
        elif k == "size":
            ks.add("size")
            if any(p != 1.0 for p in c["proportions"]):
                ks.add("proportion")
            if any(c["grid_offsets"]):
                ks.add("grid_offset")
            if c["axes"] != c["other_axes"]:
                ks.add("cross_axis")
        elif k == "extend":
            ks.add("extend_volume" if c["other"] is None else "extend_object")
        else:
            ks.add(k)
        if k != "extend" and len(c["axes"]) > 1:
            ks.add("multi_axis")
    for o in spec["objects"]:
        for f in ("pgs", "prs", "prp"):
            if any(x is not None for x in o[f]):
                ks.add(f)
    src = sources(spec)
    if any(is_free(s) for s in src.values()):
        ks.add("free_axis")
    return sorted(ks)


def main_kinds(spec) -> list[str]:
    """Coarse coverage class: which constraint mechanisms the system uses."""
    ks = set(kinds_used(spec))
    out = {k for k in ks if k in ("position", "size", "extend_object", "extend_volume", "free_axis")}
    if ks & {"grid_coord", "real_coord"}:
        out.add("coord")
    if ks & {"pgs", "prs"}:
        out.add("partial_shape")
    if "prp" in ks:
        out.add("partial_position")
    return sorted(out)


def execute_common(spec):
    """Run the schedule, evaluate both oracles.  Returns a dict used by c26/c27."""
    outs = run_system(spec)
    n_orders = len(outs)
    stats = {
        "systems": 1,
        "permutations": n_orders,
        "fault_permutation": max(0, n_orders - 1),
        "objects": len(spec["objects"]) + 1,
        "constraints": len(spec["constraints"]),
    }
    fam = family_of(spec)
    stats["family_" + fam] = 1
    stats["variant_" + spec.get("variant", "consistent")] = 1
    stats["grid_" + spec["grid"]["kind"]] = 1
    n_ok = sum(1 for o in outs if o["ok"])
    stats["placements_succeeded"] = n_ok
    stats["placements_failed"] = n_orders - n_ok
    stats["system_success_all_orders"] = int(n_ok == n_orders)
    stats["system_failure_all_orders"] = int(n_ok == 0)
    if "chain_axis" in spec:
        stats["probe_dependency_chain"] = 1
        stats["probe_dependency_chain_all_orders_succeeded"] = int(n_ok == n_orders)
    outcome = "success_all_orders" if n_ok == n_orders else ("failure_all_orders" if n_ok == 0 else "mixed_orders")
    stats[f"{fam}_{outcome}"] = 1
    stats[f"{fam}_placements_checked"] = n_ok
    stats["probe_escaped_exception"] = sum(1 for o in outs if o["escaped"])
    stats["probe_pattern_size_without_position"] = int(bool(pattern_axes(spec)))
    truth = spec.get("truth")
    if truth and n_ok:
        first = next(o for o in outs if o["ok"])
        stats["truth_matched"] = int(all(first["slices"].get(k) == v for k, v in truth.items() if k in first["slices"]))
    for k in kinds_used(spec):
        stats["probe_" + k] = 1

    # unexpected exception types: the same under every order -> harness error by policy; else order dependence
    unexpected = [o for o in outs if o.get("unexpected")]
    if unexpected and len(unexpected) == n_orders and len({o["escaped"] for o in outs}) == 1:
        raise unexpected[0]["exc"]
    rejected = n_orders > 0 and all(o["escaped"] for o in outs) and len({o["escaped"] for o in outs}) == 1

    # C27: order (in)dependence
    c27 = []
    ref_i = 0
    ref = outs[ref_i]
    for i, o in enumerate(outs):
        if o["ok"] != ref["ok"]:
            a, b = (ref_i, i) if ref["ok"] else (i, ref_i)  # a succeeds, b fails
            fail = outs[b]
            c27.append({
                "monitor": "order_dependent_success",
                "order_ok": a,
                "order_failed": b,
                "orders": [spec["orders"][a], spec["orders"][b]],
                "error_objects": sorted(fail["errors"]),
                "errors": {k: v[:160] for k, v in fail["errors"].items()},
                "escaped": fail["escaped"],
                "slices_ok": outs[a]["slices"],
                "family": fam,
            })
            break
    oks = [i for i, o in enumerate(outs) if o["ok"]]
    for i in oks[1:]:
        if outs[i]["slices"] != outs[oks[0]]["slices"]:
            diff = sorted((k, a) for k in outs[i]["slices"] for a in range(3) if outs[i]["slices"][k][a] != outs[oks[0]]["slices"].get(k, [None] * 3)[a])
            c27.append({
                "monitor": "order_dependent_slices",
                "order_a": oks[0],
                "order_b": i,
                "orders": [spec["orders"][oks[0]], spec["orders"][i]],
                "differing": [[k, a] for k, a in diff],
                "slices_a": {k: outs[oks[0]]["slices"][k] for k, _ in diff},
                "slices_b": {k: outs[i]["slices"][k] for k, _ in diff},
                "family": fam,
            })
            break

    # C26: soundness of every successful placement, under every explored order
    c26 = []
    seen = set()
    checked = 0
    for i in oks:
        checked += 1
        for v in check_placement(spec, outs[i]["slices"]):
            key = json.dumps({k: v[k] for k in v if k in ("monitor", "constraint", "object", "axis", "side")}, sort_keys=True)
            if key in seen:
                continue
            seen.add(key)
            v["order"] = i
            v["order_perms"] = spec["orders"][i]
            v["slices"] = outs[i]["slices"]
            v["family"] = fam
            c26.append(v)
    stats["placements_checked"] = checked

    h = hashlib.sha256()
    for o in outs:
        h.update(json.dumps([o["ok"], o["slices"], sorted(o["errors"]), bool(o["escaped"])], sort_keys=True).encode())
    return {
        "outs": outs,
        "stats": stats,
        "c26": c26,
        "c27": c27,
        "family": fam,
        "rejected": rejected,
        "n_ok": n_ok,
        "digest": h.hexdigest()[:16],
        "signature_parts": [fam, spec["grid"]["kind"], spec.get("variant"), main_kinds(spec), min(len(spec["objects"]), 3), "ok" if n_ok == n_orders else ("fail" if n_ok == 0 else "mixed")],
    }


# ====================================================================== known-finding predicates


# Root cause shared by every predicate below: the solver stops as soon as every slice and shape is set and never validates
# constraints whose inputs became known only after the extend-to-infinity fallback (or that were skipped because the axis was
# already resolved).  Each predicate names ONE structural way of getting there and looks only at (spec, violation).

_LIST_KEYS = ("axes", "sides", "coordinates", "own_positions", "other_positions", "margins", "grid_margins", "other_axes", "proportions", "offsets", "grid_offsets")


def _axis_entries(c, axis):
    """positions j inside a (possibly multi-axis) constraint record that talk about `axis`."""
    if c["kind"] == "extend":
        return [0] if c["axis"] == axis else []
    return [j for j, a in enumerate(c["axes"]) if a == axis]


def _culprits(violation):
    """C27: (object, axis or None) pairs that fail / differ."""
    m = violation.get("monitor")
    if m == "order_dependent_success":
        if violation.get("escaped"):
            return None
        return [(o, None) for o in violation.get("error_objects", [])]
    if m == "order_dependent_slices":
        return [(o, a) for o, a in violation.get("differing", [])]
    return None


def _late_size_axes(spec, need_position):
    """(object, axis) carrying a SizeConstraint whose referenced extent only the fallback can determine."""
    src = sources(spec)
    pre = determinable_before_fallback(spec)
    out = set()
    for (name, a), sc_ in src.items():
        if has_position(sc_) != need_position:
            continue
        if any(o != VOL and not pre.get((o, b), False) for o, b in sc_["size"]):
            out.add((name, a))
    return out


def _late_extension_axes(spec):
    """(object, axis) carrying an extend_to(other) whose target bounds only the fallback can determine."""
    pre = determinable_before_fallback(spec)
    out = set()
    for c in spec["constraints"]:
        if c["kind"] == "extend" and c["other"] not in (None, VOL) and not pre.get((c["other"], c["axis"]), False):
            out.add((c["object"], c["axis"]))
    return out


def _contradiction_axis(spec):
    """(object, axis) of the deliberately contradictory input, if the spec still contains it."""
    if spec.get("variant") != "over_inconsistent" or not spec.get("contradiction"):
        return None
    con = spec["contradiction"]
    rec = con["constraint"]
    for c in spec["constraints"]:
        if c["kind"] != rec["kind"] or c["object"] != rec["object"] or c.get("other") != rec.get("other"):
            continue
        if c["kind"] == "extend":
            if all(c[k] == rec[k] for k in ("axis", "direction", "other_position", "offset", "grid_offset")):
                return (con["object"], con["axis"])
            continue
        for j in _axis_entries(c, con["axis"]):
            if all(c[k][j] == rec[k][0] for k in _LIST_KEYS if k in rec):
                return (con["object"], con["axis"])
    return None


def _match_c27(violation, axes):
    cul = _culprits(violation)
    if not cul or not axes:
        return False
    return any((o, a) in axes if a is not None else any(o == o2 for o2, _ in axes) for o, a in cul)


def k26_size_without_position(spec, v) -> bool:
    """Silently violated SizeConstraint on an axis of an object that has no position on that axis."""
    return v.get("monitor") == "violated_size" and (v.get("object"), v.get("axis")) in set(pattern_axes(spec))


def _blames_extension(spec, v) -> bool:
    """Disambiguation between the known patterns only: the failing order names a SizeExtensionConstraint on an object that also
    carries a late extension, so the extension pattern (not a size pattern on the same object) is the one at work."""
    late = {o for o, _ in _late_extension_axes(spec)}
    return any(o in late and "SizeExtensionConstraint" in str(msg) for o, msg in (v.get("errors") or {}).items())


def k27_size_without_position(spec, v) -> bool:
    return _match_c27(v, set(pattern_axes(spec))) and not _blames_extension(spec, v)


def k26_size_reference_late(spec, v) -> bool:
    """Violated SizeConstraint (object has a position on the axis) whose referenced extent is known only after the fallback."""
    if v.get("monitor") != "violated_size" or (v.get("object"), v.get("axis")) not in _late_size_axes(spec, True):
        return False
    ci = v.get("constraint")
    if ci is None or ci >= len(spec["constraints"]):
        return False
    c = spec["constraints"][ci]
    if c["kind"] != "size" or c["object"] != v["object"] or c["other"] == VOL:
        return False
    pre = determinable_before_fallback(spec)
    return any(not pre.get((c["other"], c["other_axes"][j]), False) for j in _axis_entries(c, v["axis"]))


def k27_size_reference_late(spec, v) -> bool:
    return _match_c27(v, _late_size_axes(spec, True)) and not _blames_extension(spec, v)


def k26_extension_target_late(spec, v) -> bool:
    """Violated extend_to(other) whose target bounds are known only after the fallback."""
    if v.get("monitor") != "violated_extension" or v.get("to") in (None, "volume"):
        return False
    ci = v.get("constraint")
    if ci is None or ci >= len(spec["constraints"]):
        return False
    c = spec["constraints"][ci]
    if c["kind"] != "extend" or c["object"] != v.get("object") or c["axis"] != v.get("axis"):
        return False
    return (c["object"], c["axis"]) in _late_extension_axes(spec)


def _late_one_sided_extension_axes(spec):
    """(object, axis) with a late extend_to(other) on ONE side whose opposite side carries neither a coordinate nor an extension,
    i.e. is left to the extend-to-infinity fallback.  This is the only shape in which the unchanged tree was ever seen to be
    order dependent in this class (1 system in 13 500: the fallback pins the free side before the late extension is applied in
    some orders).  An object whose two sides are both extension-/coordinate-constrained is NOT covered: there the fallback has
    nothing to pin on that axis, so an order dependence would be a different defect."""
    src = sources(spec)
    out = set()
    for (o, a) in _late_extension_axes(spec):
        s = src[(o, a)]
        for d, e in (("-", "+"), ("+", "-")):
            if s["ext"][d] and not s["ext"][e] and not s["coord"][e]:
                out.add((o, a))
    return out


def k27_extension_target_late(spec, v) -> bool:
    return _match_c27(v, _late_one_sided_extension_axes(spec))


def k26_contradiction(spec, v) -> bool:
    """A constraint / partial field of the deliberately contradictory (object, axis) is violated on a successful placement."""
    ax = _contradiction_axis(spec)
    return ax is not None and str(v.get("monitor", "")).startswith("violated_") and (v.get("object"), v.get("axis")) == ax


def k27_contradiction(spec, v) -> bool:
    ax = _contradiction_axis(spec)
    return ax is not None and _match_c27(v, {ax})


KNOWN_C26 = {
    "size_constrained_axis_without_position": k26_size_without_position,
    "size_reference_known_only_after_fallback": k26_size_reference_late,
    "extension_target_known_only_after_fallback": k26_extension_target_late,
    "contradictory_overspecification_accepted": k26_contradiction,
}
KNOWN_C27 = {
    "size_constrained_axis_without_position": k27_size_without_position,
    "size_reference_known_only_after_fallback": k27_size_reference_late,
    "extension_target_known_only_after_fallback": k27_extension_target_late,
    "contradictory_overspecification_accepted": k27_contradiction,
}
known_c26 = k26_size_without_position
known_c27 = k27_size_without_position
