"""C03 — the full backward pass reconstructs interior fields despite absorbing layers.

History = the interface log written by the real `forward(record_boundaries=True)`; the reverse sweep
replays it.  At *every* reverse step the interior (outside all PML slabs) must equal the forward
trajectory kept by the driver.  Sweeps: step-by-step `backward` (reset_fields on/off), the public
`full_backward` loop to a seeded start step, and a sweep started from a restored host snapshot.
"""
from __future__ import annotations

import numpy as np

from fdsim import specgen

PROPERTY = "C03"
LEVEL = "exploration"
RUNS = {"quick": 24, "thorough": 600}
RULE = (
    "lossless non-dispersive scenes; PML (default grading) on a random non-empty subset of faces, thickness 2-6, other faces periodic/"
    "PEC/PMC/none; uniform or non-uniform grid; random per-cell iso/diag eps and mu (full tensor in a minority); random interior initial "
    "fields plus 0-2 sources; recorder [] or [widening DtypeConversion] (float32 fields -> float64 log). non-trivial = interior field "
    "non-zero at the final step; distinct = scene signature x recorder pipeline x sweep options"
)
REAL = ["place_objects", "forward(record_boundaries=True)", "Recorder.compress/decompress", "backward", "full_backward", "PML update + interface restore"]
STUB = ["durable storage = host numpy copy"]
ASSUMPTIONS = ["float64 tolerance 1e-9 relative to the trajectory max; float32 runs 5e-4 (can only add detections)"]
TECHNIQUE = "deterministic simulation: log replay (recorded PML interfaces) checked against the driver's forward trajectory at every reverse step"
LEVEL_TEXT = "Seeded exploration; every reverse step of every sweep (stepwise, full_backward, after crash/restore) is compared with the stored forward trajectory on all non-PML cells."
LEVEL_NOTE = "float64 CPU; grids <= 9^3 interior + PML, T <= 14; only lossless recording pipelines"


def _full_tensor_adjacent_to_pml(spec, violation):
    """Known finding: full-tensor medium + first mismatching cell within 2 cells of a PML slab."""
    m = spec.get("materials", {})
    if m.get("eps_tier") != "full" and m.get("mu_tier") != "full":
        return False
    if violation.get("monitor") not in ("reverse_interior_mismatch", "full_backward_mismatch"):
        return False
    cell = violation.get("worst_cell")
    if not cell:
        return False
    if violation.get("monitor") == "full_backward_mismatch":
        return True  # end-of-sweep comparison only: the error has spread, adjacency cannot be asserted
    shape = spec["shape"]
    for face, f in spec["faces"].items():
        if f["kind"] != "pml":
            continue
        a = "xyz".index(face[-1])
        t = f["thickness"]
        x = cell[1 + a]
        if face.startswith("min") and x - t <= 1:
            return True
        if face.startswith("max") and (shape[a] - t - 1) - x <= 1:
            return True
    return False


KNOWN_PREDICATES = {"full_tensor_adjacent_to_pml": _full_tensor_adjacent_to_pml}


def generate(rng, tier, index):
    T = int(rng.integers(3, 15))
    f32 = bool(rng.uniform() < 0.2)
    faces = {}
    while not any(f["kind"] == "pml" for f in faces.values()):
        faces = specgen.rand_faces(rng, kinds_pair=("periodic",), kinds_single=("pec", "pmc", "none"), pml=(2, 6))
    shape = []
    for a, ax in enumerate("xyz"):
        t = sum(faces[f"{d}_{ax}"].get("thickness", 0) for d in ("min", "max"))
        shape.append(t + int(rng.integers(3, 7)))
    tier_e = specgen.choice(rng, ["iso", "iso", "iso", "iso", "diag", "diag", "full", "full"])
    m = {"mode": "random", "seed": int(rng.integers(0, 2**31)), "eps_tier": tier_e}
    if rng.uniform() < 0.5:
        m["mu_tier"] = specgen.choice(rng, ["iso", "diag", "full"])
    if tier_e == "full" or m.get("mu_tier") == "full":
        f32 = False  # x64-enabled full-tensor kernels promote float32 fields; not part of this property
        # full tensors: the cells next to a layer are covered by a known finding whose error spreads one cell per reverse
        # step; a longer interior keeps a region that it cannot have reached (monitor *_far_from_layers)
        shape = [n + int(rng.integers(2, 5)) for n in shape]
    grid = specgen.rand_grid(rng, shape, 0.35)
    if f32:  # with x64 enabled the float64 metric factors of a non-uniform grid promote float32 fields; keep float32 on uniform grids
        grid = {"kind": "uniform", "spacing": specgen.SPACING}
    spec = {"shape": shape, "grid": grid, "steps": T, "faces": faces, "key": int(rng.integers(0, 2**31)), "materials": m}
    if f32:
        spec["dtype"] = "float32"
        spec["gradient"] = {"method": "reversible", "recorder": [{"kind": "dtype", "dtype": "float64"}]}
    else:
        spec["gradient"] = {"method": "reversible", "recorder": [] if rng.uniform() < 0.7 else [{"kind": "dtype", "dtype": "float64"}]}
    inner = specgen.inner_region(shape, faces)
    iso = tier_e == "iso" and m.get("mu_tier") in (None, "iso")
    srcs = []
    for i in range(int(rng.integers(0, 3))):
        k = specgen.choice(rng, ["dipole", "uniform_plane", "gaussian_plane", "tfsf_region", "mode"]) if iso else "dipole"
        if k == "dipole":
            s = specgen.rand_dipole(rng, f"s{i}", shape, inner, T)
        elif k == "tfsf_region":
            s = specgen.rand_tfsf_region(rng, f"s{i}", shape, inner, T, faces=faces)
        elif k == "mode":
            s = specgen.rand_mode_source(rng, f"s{i}", shape, inner, T)
        else:
            s = specgen.rand_plane_source(rng, f"s{i}", shape, inner, T, kind=k)
        srcs.append(s if s is not None else specgen.rand_dipole(rng, f"s{i}", shape, inner, T))
    if iso and (not srcs or all(s_["kind"] == "dipole" for s_ in srcs)) and rng.uniform() < 0.7:
        # isotropic scenes are the only ones that admit plane-type (TFSF) sources: give most of them one, half of those with
        # the default always-on switch (the library undoes always-on and switched sources through different code paths)
        k = specgen.choice(rng, ["uniform_plane", "gaussian_plane", "mode", "tfsf_region"])
        s_ = specgen.rand_tfsf_region(rng, "sp", shape, inner, T, faces=faces) if k == "tfsf_region" else specgen.rand_mode_source(rng, "sp", shape, inner, T) if k == "mode" else specgen.rand_plane_source(rng, "sp", shape, inner, T, kind=k)
        for ax_try in range(3):  # small interiors: fall back to a uniform plane source along any axis that has room
            if s_ is None:
                s_ = specgen.rand_plane_source(rng, "sp", shape, inner, T, kind="uniform_plane", axis=ax_try)
        if s_ is not None:
            srcs.append(s_)
    for s_ in srcs:
        if s_["kind"] != "dipole" and rng.uniform() < 0.5:
            s_.pop("switch", None)
    spec["sources"] = srcs
    spec["init_seed"] = int(rng.integers(0, 2**31))
    # one scene in three with sources starts from zero fields, so that a defect in how a source is undone in the reverse
    # sweep is measured against the source-made field instead of O(1) random fields
    spec["init_scale"] = 0.0 if (srcs and rng.uniform() < 0.35) else 1.0
    spec["ops"] = [
        {"op": "stepwise", "reset_fields": bool(rng.uniform() < 0.5)},
        {"op": "full_backward", "reset_fields": bool(rng.uniform() < 0.5), "start": int(rng.integers(0, T))},
        {"op": "restore_then_stepwise", "reset_fields": bool(rng.uniform() < 0.5)},
    ]
    return spec


def shrink(spec):
    import copy

    out = [s for s in specgen.generic_shrinks(spec) if s.get("ops")]
    if spec["steps"] > 2:
        s = copy.deepcopy(spec)
        s["steps"] -= 1
        for o in s["ops"]:
            if "start" in o:
                o["start"] = min(o["start"], s["steps"] - 1)
        out.append(s)
    for face, f in spec["faces"].items():
        if f["kind"] == "pml" and sum(1 for g in spec["faces"].values() if g["kind"] == "pml") > 1:
            s = copy.deepcopy(spec)
            a = "xyz".index(face[-1])
            s["shape"][a] -= f["thickness"]
            if s["grid"]["kind"] == "rect":
                e = s["grid"]["edges"][a]
                s["grid"]["edges"][a] = e[f["thickness"]:] if face.startswith("min") else e[: len(e) - f["thickness"]]
            s["faces"][face] = {"kind": "none"}
            for src in s.get("sources", []):
                if face.startswith("min"):
                    src["box"][a] = [src["box"][a][0] - f["thickness"], src["box"][a][1] - f["thickness"]]
            out.append(s)
    return out


def execute(spec):
    import jax.numpy as jnp
    from fdtdx.fdtd.backward import full_backward
    from fdsim import scene as sc, driver as dr

    try:
        scn = sc.build_scene(spec)
    except NotImplementedError as e:
        return {"rejected": True, "nontrivial": False, "stats": {"rejected": 1}, "digest": "rejected:" + str(e)[:40]}
    tol = 1e-9 if spec.get("dtype", "float64") == "float64" else 5e-4
    T = scn.T
    mask = sc.interior_mask(spec)[None]
    E0, H0 = sc.random_fields(scn, spec["init_seed"], scale=float(spec.get("init_scale", 1.0)), interior_only=True)
    arrays = scn.arrays.aset("fields->E", E0).aset("fields->H", H0)
    st = dr.Stepper(scn, record_detectors=False, record_boundaries=True)
    state = st.state0(arrays)
    traj = [(np.array(E0), np.array(H0))]
    stats, viol, resid = {"sim_steps": 0, "sim_time_fs": 0.0}, [], {}
    for _ in range(T):
        state = st.fwd(state, 1)
        f = dr.fields_np(state)
        traj.append((f["E"], f["H"]))
    stats["sim_steps"] += T
    final = state
    scale = max(max(float(np.max(np.abs(e))), float(np.max(np.abs(h)))) for e, h in traj)
    nontrivial = bool(np.max(np.abs(traj[-1][0] * mask)) > 0)

    full_tensor = spec["materials"].get("eps_tier") == "full" or spec["materials"].get("mu_tier") == "full"
    dist = np.full(tuple(spec["shape"]), 10**6)
    for face, f_ in spec["faces"].items():
        if f_["kind"] != "pml":
            continue
        a_ = "xyz".index(face[-1])
        idx = np.arange(spec["shape"][a_])
        d1 = (idx - f_["thickness"]) if face.startswith("min") else (spec["shape"][a_] - f_["thickness"] - 1 - idx)
        sh_ = [1, 1, 1]
        sh_[a_] = -1
        dist = np.minimum(dist, np.broadcast_to(d1.reshape(sh_), dist.shape))

    def cmp_far(state_t, t, steps_back, monitor, extra):
        """Full-tensor scenes: cells the known near-layer error (2 cells, spreading one cell per reverse step) cannot have reached."""
        far = (mask[0] & (dist >= 2 + steps_back + 1))[None]
        if not full_tensor or not far.any():
            return True
        f = dr.fields_np(state_t)
        w = max(dr.rel_diff(traj[t][0] * far, f["E"] * far, scale), dr.rel_diff(traj[t][1] * far, f["H"] * far, scale))
        resid[monitor] = max(resid.get(monitor, 0.0), w if np.isfinite(w) else 1e300)
        stats["far_cells_compared"] = stats.get("far_cells_compared", 0) + int(far.sum())
        if not (w <= tol):
            viol.append({"monitor": monitor, "step": t, "metric": "rel_diff", "value": w, "tolerance": tol, "steps_back": steps_back, **extra})
            return False
        return True

    def cmp(state_t, t, monitor, extra):
        f = dr.fields_np(state_t)
        dE = dr.rel_diff(traj[t][0] * mask, f["E"] * mask, scale)
        dH = dr.rel_diff(traj[t][1] * mask, f["H"] * mask, scale)
        w = max(dE, dH)
        resid[monitor] = max(resid.get(monitor, 0.0), w if np.isfinite(w) else 1e300)
        if not (w <= tol):
            bad = np.abs(traj[t][0] * mask - f["E"] * mask) if dE >= dH else np.abs(traj[t][1] * mask - f["H"] * mask)
            where = [int(x) for x in np.unravel_index(int(np.argmax(np.nan_to_num(bad, nan=np.inf))), bad.shape)]
            viol.append({"monitor": monitor, "step": t, "field": "E" if dE >= dH else "H", "metric": "rel_diff", "value": w, "tolerance": tol, "worst_cell": where, **extra})
            return False
        return True

    for op in spec["ops"]:
        rf = bool(op.get("reset_fields"))
        if op["op"] in ("stepwise", "restore_then_stepwise"):
            s = final
            if op["op"] == "restore_then_stepwise":
                s = dr.roundtrip(final)
                stats["fault_crash_restore"] = stats.get("fault_crash_restore", 0) + 1
            for t in range(T - 1, -1, -1):
                s = st.bwd(s, 1, reset_fields=rf, record_detectors=False)
                stats["sim_steps"] += 1
                ok_far = cmp_far(s, t, T - t, "reverse_mismatch_far_from_layers", {"sweep": op["op"], "reset_fields": rf})
                if not cmp(s, t, "reverse_interior_mismatch", {"sweep": op["op"], "reset_fields": rf}) or not ok_far:
                    break
            stats["fault_log_replay"] = stats.get("fault_log_replay", 0) + 1
        elif op["op"] == "full_backward":
            s0 = int(op["start"])
            out = full_backward(state=final, objects=scn.objects, config=scn.config, key=scn.key, record_detectors=False, reset_fields=rf, start_time_step=s0)
            stats["sim_steps"] += T - s0
            stats["fault_real_reverse_loop"] = stats.get("fault_real_reverse_loop", 0) + 1
            if int(out[0]) != s0:
                viol.append({"monitor": "full_backward_stop_step", "got": int(out[0]), "want": s0})
            else:
                cmp(out, s0, "full_backward_mismatch", {"start": s0, "reset_fields": rf})
    stats["sim_time_fs"] = stats["sim_steps"] * scn.dt * 1e15
    m = spec["materials"]
    stats["probe_full_tensor"] = int(m.get("eps_tier") == "full")
    stats["probe_full_tensor_mu"] = int(m.get("mu_tier") == "full")
    stats["probe_zero_initial_fields"] = int(spec.get("init_scale", 1.0) == 0.0)
    for s_ in spec.get("sources", []):
        stats["probe_source_" + s_["kind"]] = stats.get("probe_source_" + s_["kind"], 0) + 1
    stats["probe_float32"] = int(spec.get("dtype") == "float32")
    stats["probe_dtype_module"] = int(bool(spec["gradient"]["recorder"]))
    stats["probe_pml_faces"] = sum(1 for f in spec["faces"].values() if f["kind"] == "pml")
    stats["probe_pml_corner"] = int(sum(1 for a in "xyz" if any(spec["faces"][f"{d}_{a}"]["kind"] == "pml" for d in ("min", "max"))) >= 2)
    sig = specgen.scene_signature(spec, len(spec["gradient"]["recorder"]), [(o["op"], o.get("reset_fields")) for o in spec["ops"]])
    digest = dr.digest_arrays({"E": traj[-1][0], "H": traj[-1][1]}) + ":" + ",".join(f"{k}={dr.sig3(v)}" for k, v in sorted(resid.items())) + f":v{len(viol)}"
    return {"violations": viol, "stats": stats, "residuals": resid, "nontrivial": nontrivial, "signature": sig, "digest": digest}
