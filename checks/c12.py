"""C12 — absorbing layers absorb (bounded liveness on the solver clock).

Disturbance = a zero-net-charge pulsed source that switches itself off; recovery = PML (>= 8 cells) on
every face.  Monitored through the real loop: interior energy at every step (reduced energy detector)
and the raw field history of a probe window.  Oracle: once the pulse has left, the residual interior
energy is below 1e-6 of its peak, and the probe history differs from the same scene in a reference
domain padded by 24-30 cells per side (+ its own PML) by less than 1e-4 in relative energy.
"""
from __future__ import annotations

import numpy as np

from fdsim import specgen

PROPERTY = "C12"
LEVEL = "exploration"
RUNS = {"quick": 8, "thorough": 200}
X64 = False
RUN_TIMEOUT_S = 900
RULE = (
    "interior 12-18 cells per axis (non-cubic), PML thickness 8-20 per face (independent per face; default grading or explicit kappa_end 1-3 / sigma_end 0.8-1.5 x the library optimum; half of the scenes via BoundaryConfig), homogeneous medium eps 1-2.25; source: "
    "electric dipole (any axis, carrier = 6 spectral widths so the DC content is < 1e-7), magnetic dipole or uniform plane source spanning "
    "the interior (carrier 6-7 spectral widths), 10-14 cells per wavelength, at a random position >= 3 cells from the layers; run length = "
    "pulse end + 3 diagonal transits (x 2.5 in a third of the scenes). non-trivial = peak interior energy > 0; distinct = (source kind, polarisation/axis, thickness bin, "
    "position octant)"
)
REAL = ["place_objects", "run_fdtd (checkpointed loop)", "PML (CPML update, default grading)", "EnergyDetector", "FieldDetector", "sources"]
STUB = ["tqdm disabled", "reference 'much larger domain' = interior padded by 24-30 cells per side plus its own 10-cell PML (not an infinite domain)"]
ASSUMPTIONS = ["float32", "statement thresholds 1e-6 / 1e-4 used unchanged (measured on the unchanged tree: 1e-13 / 2e-10)"]
TECHNIQUE = "deterministic simulation: bounded-liveness (quiescence after the disturbance stops) on the per-step energy history, plus replica agreement with a padded reference domain"
LEVEL_TEXT = "Seeded exploration over source kinds, polarisations, positions and per-face thicknesses; quiescence within a stated number of steps after the source stops."
LEVEL_NOTE = "float32; main domain <= 58^3 incl. PML, reference <= 100^3; <= 520 steps"


def generate(rng, tier, index):
    interior = [int(rng.integers(12, 19)) for _ in range(3)]
    th = {f: int(rng.integers(8, 21)) for f in specgen.FACES}
    if tier == "quick":
        th = {f: int(rng.integers(8, 13)) for f in specgen.FACES}
    eps = float(rng.uniform(1.0, 2.25))
    cpw = float(rng.uniform(10, 14))
    lam0 = cpw * np.sqrt(eps) * specgen.SPACING
    kind = ["edipole", "mdipole", "plane"][index % 3]
    # carrier = 6 spectral widths for every source kind: the pulse's DC content (exp(-18) in amplitude) is what a current
    # source leaves behind as a *static* field (deposited electric or magnetic charge), which no absorbing layer removes -
    # the statement's "zero-net-charge" premise. (A magnetic dipole at 4 widths leaves 2.7e-6 of the peak energy for ever.)
    ratio = 6.0 if kind == "edipole" else float(rng.uniform(6.0, 7.0))
    period_steps = cpw * np.sqrt(eps) / (0.99 / np.sqrt(3))
    sig_t = ratio * period_steps / (2 * np.pi)
    diag = float(np.linalg.norm(interior)) * np.sqrt(eps) / (0.99 / np.sqrt(3))
    T = int(12 * sig_t + 3 * diag)
    pos = [int(rng.integers(3, n - 3)) for n in interior]
    pol = int(rng.integers(0, 3))
    src = {"name": "src", "wavelength": lam0, "profile": {"kind": "pulse", "center_wavelength": lam0, "width_wavelength": lam0 * ratio}}
    if kind == "plane":
        ax = int(rng.integers(0, 3))
        box = [[0, n] for n in interior]
        box[ax] = [pos[ax], pos[ax] + 1]
        t1, t2 = (ax + 1) % 3, (ax + 2) % 3
        ang = float(rng.uniform(0, 2 * np.pi))
        e = [0.0, 0.0, 0.0]
        e[t1], e[t2] = float(np.cos(ang)), float(np.sin(ang))
        src.update({"kind": "uniform_plane", "box": box, "direction": specgen.choice(rng, ["+", "-"]), "e_pol": e})
    else:
        src.update({"kind": "dipole", "box": [[p, p + 1] for p in pos], "polarization": pol, "source_type": "electric" if kind == "edipole" else "magnetic", "amplitude": 1.0})
    win = [[max(0, n // 2 - 3), min(n, n // 2 + 3)] for n in interior]
    # layer grading: library defaults, or explicit values around them - kappa stretching 1-3 and sigma_end 0.8-1.5 x the
    # library's own optimum -(m+1) ln(1e-6) / (2 eta0 d); half of the scenes build their layers through the documented
    # BoundaryConfig -> boundary_objects_from_config path instead of constructing PerfectlyMatchedLayer directly
    grading = {}
    for f in specgen.FACES:
        g = {}
        if rng.uniform() < 0.5:
            g["kappa_end"] = float(rng.uniform(1.0, 3.0))
        if rng.uniform() < 0.5:
            g["sigma_end"] = float(rng.uniform(0.8, 1.5)) * (4.0 * np.log(1e6) / (2 * 376.730313668 * th[f] * specgen.SPACING))
        grading[f] = g
    if rng.uniform() < 0.3:  # a plain (non-CFS) layer: no complex frequency shift at all
        for f in specgen.FACES:
            grading[f]["alpha_start"], grading[f]["alpha_end"] = 0.0, 0.0
    via_config = bool(rng.uniform() < 0.5)
    # one scene in three runs 2.5 x longer: a layer that is unstable only at late times must still be quiet then
    if rng.uniform() < 0.34:
        T = int(2.5 * T)
    return {"grading": grading, "via_config": via_config, "interior": interior, "thickness": th, "eps": eps, "steps": T, "source": src, "window": win, "pad": int(rng.integers(24, 31)), "off_step": int(12 * sig_t), "source_kind": kind}


def shrink(spec):
    return []


def _scene(spec, pad, th, grading=False):
    """Interior placed at offset (pad + thickness) inside a domain with PML `th` per face."""
    interior = spec["interior"]
    off = [pad + th[f"min_{ax}"] for ax in "xyz"]
    shape = [interior[a] + 2 * pad + th[f"min_{ax}"] + th[f"max_{ax}"] for a, ax in enumerate("xyz")]
    faces = {f: {"kind": "pml", "thickness": th[f], **(spec.get("grading", {}).get(f, {}) if grading else {})} for f in specgen.FACES}

    def shift(box):
        return [[b[0] + off[a], b[1] + off[a]] for a, b in enumerate(box)]

    src = dict(spec["source"])
    src["box"] = shift(src["box"])  # plane sources are a finite patch over the interior cross-section in both domains
    dets = [
        {"kind": "energy", "name": "u_int", "box": shift([[0, n] for n in interior]), "reduce": True, "exact": True},
        {"kind": "field", "name": "probe", "box": shift(spec["window"]), "exact": False, "reduce": False, "components": list(specgen.ALL_COMPONENTS)},
    ]
    return {
        "shape": shape, "grid": {"kind": "uniform", "spacing": specgen.SPACING}, "steps": spec["steps"], "faces": faces, "dtype": "float32", "key": 0,
        "materials": {"mode": "objects", "objects": [], "background": {"permittivity": spec["eps"]}}, "sources": [src], "detectors": dets,
        "faces_via_config": bool(grading and spec.get("via_config")),
    }


def execute(spec):
    import fdtdx
    from fdsim import scene as sc, driver as dr

    viol, stats, resid = [], {"sim_steps": 0, "sim_time_fs": 0.0}, {}
    out = {}
    for name, pad, th in (("main", 0, spec["thickness"]), ("ref", spec["pad"], {f: 10 for f in specgen.FACES})):
        scn = sc.build_scene(_scene(spec, pad, th, grading=(name == "main")))
        t, arr = fdtdx.run_fdtd(scn.arrays, scn.objects, scn.config, scn.key, show_progress=False)
        D = dr.detectors_np((t, arr))
        out[name] = (D["u_int/energy"][:, 0].astype(np.float64), D["probe/fields"].astype(np.float64))
        stats["sim_steps"] += scn.T
        stats["sim_time_fs"] += scn.T * scn.dt * 1e15
        stats["cells_" + name] = int(np.prod(scn.shape))
    U, P = out["main"]
    peak = float(U.max())
    nontrivial = peak > 0
    if nontrivial:
        res = float(U[-1]) / peak
        resid["residual_energy_over_peak"] = res
        if not (res < 1e-6):
            viol.append({"monitor": "energy_not_absorbed", "metric": "U_end/U_peak", "value": res, "tolerance": 1e-6, "peak_step": int(U.argmax()), "steps": len(U)})
        if "ref" in out:
            Pr = out["ref"][1]
            den = float(np.sum(Pr**2))
            rel = float(np.sum((P - Pr) ** 2)) / den if den > 0 else float("inf")
            resid["window_vs_reference_rel_energy"] = rel
            if not (rel < 1e-4):
                viol.append({"monitor": "differs_from_larger_domain", "metric": "sum|f-f_ref|^2/sum|f_ref|^2", "value": rel, "tolerance": 1e-4})
            stats["fault_reference_replica"] = 1
    else:
        viol.append({"monitor": "no_energy_injected"})
    stats["probe_" + spec["source_kind"]] = 1
    stats["probe_layers_via_boundary_config"] = int(bool(spec.get("via_config")))
    stats["probe_explicit_kappa"] = int(any("kappa_end" in g for g in spec.get("grading", {}).values()))
    stats["probe_explicit_sigma"] = int(any("sigma_end" in g for g in spec.get("grading", {}).values()))
    stats["probe_alpha_zero"] = int(any(g.get("alpha_start") == 0.0 for g in spec.get("grading", {}).values()))
    stats["probe_long_run"] = int(spec["steps"] > 1.5 * (spec["off_step"] + 1) and spec["steps"] > 900)
    stats["probe_thick_layer_ge16"] = int(max(spec["thickness"].values()) >= 16)
    sig = specgen.signature(spec["source_kind"], spec["source"].get("polarization"), spec["source"].get("direction"), min(spec["thickness"].values()) // 4, max(spec["thickness"].values()) // 4,
                            [int(b[0] > n // 2) for b, n in zip(spec["source"]["box"], spec["interior"])])
    digest = ":".join(f"{k}={dr.sig3(v)}" for k, v in sorted(resid.items())) + f":v{len(viol)}"
    return {"violations": viol, "stats": stats, "residuals": resid, "nontrivial": nontrivial, "signature": sig, "digest": digest}
