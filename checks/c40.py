"""C40 — functional updates (`TreeClass.aset`) never mutate their input.

A seeded machine builds nested configuration objects (real fdtdx classes: SimulationConfig with
GradientConfig / Recorder / modules, ObjectContainer with volume, material objects and detectors,
RecordingState with dicts of arrays; plus ad-hoc @autoinit TreeClass definitions holding lists, tuples
and dicts of nested trees, frozen and unfrozen), then applies random `aset(path, value)` operations to
ANY live version and keeps every version alive.

Model: an independent plain mirror (nested dict / list of every field, leaf by leaf) taken once from the
initial object and updated by the harness's own path interpreter.  Invariants after every operation:
  * the result has the receiver's type;
  * the result equals the model at every path (only the addressed path changed);
  * every OTHER live version - and the receiver - still equals its own mirror (no aliasing write);
  * every container on the addressed path is a new object in the result (checked when the value changed);
  * aliasing probe: writing in place into the result's own path containers is invisible to all other versions;
  * a rejected update (documented Exception: tuple index, unknown attribute / key without create_new_ok,
    attribute on a non-tree) leaves every version unchanged.
One run = a batch of histories.
"""
from __future__ import annotations

import copy

import numpy as np

from fdsim import specgen

PROPERTY = "C40"
LEVEL = "exploration"
BATCH = 50
RUNS = {"quick": 40, "thorough": 800}
RUN_TIMEOUT_S = 600
SHRINK_BUDGET = {"quick": 300, "thorough": 600}
RULE = (
    "one run = 50 seeded histories; a history = one root object (SimulationConfig>GradientConfig>Recorder>modules list | ObjectContainer with object_list of volume / "
    "UniformMaterialObject / FieldDetector | RecordingState with dicts of arrays | ad-hoc trees with frozen and plain lists, tuples, dicts of nested trees and a nested "
    "SimulationConfig) + 6-14 aset operations, each applied to a uniformly chosen live version; path shapes: attribute chains, list index (also negative), dict key "
    "(keys with spaces, dots, '->' and digits), mixtures up to depth 6, tuple index (documented rejection), unknown attribute / key with and without create_new_ok, "
    "same-value writes; values: scalars, strings, tuples, arrays, whole sub-trees, lists and dicts of trees. non-trivial = at least one accepted update with >= 2 live versions; "
    "distinct = root kind x set of path-shape classes exercised"
)
REAL = ["TreeClass.aset / _parse_operations / _aset", "pytreeclass .at[method] copy-on-write", "frozen_field freeze/unfreeze callbacks", "SimulationConfig", "GradientConfig", "Recorder",
        "LinearReconstructEveryK", "DtypeConversion", "Material", "OnOffSwitch", "UniformMaterialObject", "SimulationVolume", "FieldDetector", "ObjectContainer", "RecordingState", "UniformGrid"]
STUB = ["ad-hoc @autoinit TreeClass definitions stand in for user-defined configuration classes"]
ASSUMPTIONS = [
    "equality is leaf-by-leaf on every instance attribute (arrays by dtype / shape / bytes, other leaves by value or repr)",
    "fields with a normalising setter (Material tensors, object names) are only given values the normaliser maps to themselves",
    "sharing of containers that are NOT on the addressed path between versions is allowed (only observable through in-place mutation by the user)",
]
TECHNIQUE = "deterministic simulation of a version store: seeded aset histories over all live versions against an independent plain mirror, with in-place aliasing probes"
LEVEL_TEXT = "Seeded search over object shapes x path shapes x version histories; every live version is re-compared leaf by leaf after every operation. Evidence, not a proof."
LEVEL_NOTE = "no faults, single actor: the schedule dimension is which live version receives the next update; pure Python, no time loop"


# ====================================================================== recipes (generator side, jax-free)
# recipe node: {"t": kind, ...}; kinds: tree(cls,f) list(v) tuple(v) dict(v) float int str bool none array(seed,shape,dtype) dtype(v)

KEYS = ["a", "b1", "k 2", "x.y", "p->q", "12", "E", "long_key_name"]


def R(t, **kw):
    return {"t": t, **kw}


def _f(r, lo=-3.0, hi=3.0):
    return R("float", v=float(f"{r.uniform(lo, hi):.6g}"))


def _arr(r):
    shape = [int(r.integers(1, 4)) for _ in range(int(r.integers(1, 3)))]
    return R("array", seed=int(r.integers(0, 2**31)), shape=shape, dtype=specgen.choice(r, ["float32", "float64", "complex64", "int32"]))


def _tuple9(r):
    return R("tuple", v=[_f(r, 0.5, 9.0) for _ in range(9)])


def g_material(r):
    f = {"permittivity": _tuple9(r)}
    if r.uniform() < 0.5:
        f["permeability"] = _tuple9(r)
    if r.uniform() < 0.3:
        f["electric_conductivity"] = _tuple9(r)
    return R("tree", cls="Material", f=f)


def g_switch(r):
    f = {}
    if r.uniform() < 0.5:
        f["start_time"] = _f(r, 0.0, 1e-14)
    if r.uniform() < 0.5:
        f["interval"] = R("int", v=int(r.integers(1, 5)))
    if r.uniform() < 0.3:
        f["fixed_on_time_steps"] = R("list", v=[R("int", v=int(x)) for x in r.integers(0, 20, size=int(r.integers(1, 4)))])
    f["is_always_off"] = R("bool", v=bool(r.uniform() < 0.2))
    return R("tree", cls="OnOffSwitch", f=f)


def g_grid(r):
    return R("tree", cls="UniformGrid", f={"spacing": _f(r, 1e-8, 1e-7)})


def g_module(r):
    if r.uniform() < 0.5:
        return R("tree", cls="LinearReconstructEveryK", f={"k": R("int", v=int(r.integers(1, 6))), "start_recording_after": R("int", v=int(r.integers(0, 4)))})
    return R("tree", cls="DtypeConversion", f={"dtype": R("dtype", v=specgen.choice(r, ["float32", "float16", "bfloat16"]))})


def g_recorder(r):
    return R("tree", cls="Recorder", f={"modules": R("list", v=[g_module(r) for _ in range(int(r.integers(0, 4)))])})


def g_gradient(r):
    if r.uniform() < 0.6:
        return R("tree", cls="GradientConfig", f={"method": R("str", v="reversible"), "recorder": g_recorder(r), "num_checkpoints_reversible": R("int", v=int(r.integers(0, 5)))})
    return R("tree", cls="GradientConfig", f={"method": R("str", v="checkpointed"), "num_checkpoints": R("int", v=int(r.integers(1, 9)))})


def g_config(r):
    f = {"time": _f(r, 1e-15, 1e-13), "grid": g_grid(r), "backend": R("str", v="cpu"), "courant_factor": _f(r, 0.5, 0.99),
         "symmetry": R("tuple", v=[R("int", v=int(x), lo=-1, hi=1) for x in r.integers(-1, 2, size=3)])}  # constructor-validated domain: regen stays inside it
    if r.uniform() < 0.7:
        f["gradient_config"] = g_gradient(r)
    if r.uniform() < 0.5:
        f["dtype"] = R("dtype", v=specgen.choice(r, ["float32", "float64"]))
    return R("tree", cls="SimulationConfig", f=f)


def _pshape(r, kind):
    v = []
    for _ in range(3):
        if r.uniform() < 0.4:
            v.append(R("none"))
        else:
            v.append(R("int", v=int(r.integers(1, 9))) if kind == "grid" else _f(r, 1e-8, 1e-6))
    return R("tuple", v=v)


def g_umo(r, name):
    f = {"name": R("str", v=name), "material": g_material(r), "placement_order": R("int", v=int(r.integers(-2, 4)))}
    if r.uniform() < 0.5:
        f["partial_grid_shape"] = _pshape(r, "grid")
    if r.uniform() < 0.3:
        f["partial_real_shape"] = _pshape(r, "real")
    return R("tree", cls="UniformMaterialObject", f=f)


def g_detector(r, name):
    comps = ["Ex", "Ey", "Ez", "Hx", "Hy", "Hz"]
    k = int(r.integers(1, 7))
    f = {"name": R("str", v=name), "switch": g_switch(r), "reduce_volume": R("bool", v=bool(r.uniform() < 0.5)), "plot": R("bool", v=False),
         "components": R("tuple", v=[R("str", v=comps[i]) for i in sorted(r.choice(6, size=k, replace=False))])}
    return R("tree", cls="FieldDetector", f=f)


def g_volume(r):
    return R("tree", cls="SimulationVolume", f={"name": R("str", v="volume"), "partial_grid_shape": R("tuple", v=[R("int", v=int(x)) for x in r.integers(3, 9, size=3)])})


def g_container(r):
    objs = [g_volume(r)]
    for i in range(int(r.integers(1, 5))):
        objs.append(g_umo(r, f"obj{i}") if r.uniform() < 0.6 else g_detector(r, f"det{i}"))
    return R("tree", cls="ObjectContainer", f={"object_list": R("list", v=objs), "volume_idx": R("int", v=0)})


def g_recording(r):
    def d():
        ks = [KEYS[i] for i in sorted(r.choice(len(KEYS), size=int(r.integers(1, 4)), replace=False))]
        return R("dict", v={k: _arr(r) for k in ks})

    return R("tree", cls="RecordingState", f={"data": d(), "state": d()})


def g_leaf(r):
    f = {"x": _f(r), "tag": R("str", v=specgen.choice(r, ["t", "u", "tag with space"]))}
    if r.uniform() < 0.5:
        f["arr"] = _arr(r)
    return R("tree", cls="Leaf", f=f)


def g_node(r, depth=0):
    f = {
        "child": g_leaf(r),
        "items": R("list", v=[g_leaf(r) for _ in range(int(r.integers(0, 4)))]),
        "frozen_items": R("list", v=[g_leaf(r) if r.uniform() < 0.7 else _f(r) for _ in range(int(r.integers(0, 4)))]),
        "table": R("dict", v={KEYS[i]: g_leaf(r) for i in sorted(r.choice(len(KEYS), size=int(r.integers(0, 4)), replace=False))}),
        "ftable": R("dict", v={KEYS[i]: (g_leaf(r) if r.uniform() < 0.5 else _arr(r)) for i in sorted(r.choice(len(KEYS), size=int(r.integers(0, 3)), replace=False))}),
        "pair": R("tuple", v=[g_leaf(r), _f(r)]),
        "value": _f(r),
    }
    if depth < 1 and r.uniform() < 0.5:
        f["nested"] = R("list", v=[R("dict", v={"n": g_node(r, depth + 1)}), R("list", v=[g_leaf(r), _f(r)])])
    return R("tree", cls="Node", f=f)


def g_deep(r):
    f = {"node": g_node(r), "nodes": R("list", v=[g_node(r, 1) for _ in range(int(r.integers(1, 3)))]),
         "by_name": R("dict", v={KEYS[i]: g_node(r, 1) for i in sorted(r.choice(len(KEYS), size=int(r.integers(1, 3)), replace=False))})}
    if r.uniform() < 0.6:
        f["cfg"] = g_config(r)
    if r.uniform() < 0.5:
        f["material"] = g_material(r)
    return R("tree", cls="Deep", f=f)


ROOTS = {"config": g_config, "container": g_container, "recording": g_recording, "adhoc": g_deep}
CLASS_GEN = {
    "Material": g_material, "OnOffSwitch": g_switch, "UniformGrid": g_grid, "Recorder": g_recorder, "GradientConfig": g_gradient, "SimulationConfig": g_config,
    "RecordingState": g_recording, "Leaf": g_leaf, "Node": lambda r: g_node(r, 1), "Deep": g_deep, "SimulationVolume": g_volume, "ObjectContainer": g_container,
}


def regen(r, node):
    """A fresh random value of the same kind as `node` (keeps normalising setters happy)."""
    t = node["t"]
    if t == "tree":
        c = node["cls"]
        if c in ("LinearReconstructEveryK", "DtypeConversion"):
            return g_module(r)
        if c == "UniformMaterialObject":
            return g_umo(r, node["f"]["name"]["v"] + "n")
        if c == "FieldDetector":
            return g_detector(r, node["f"]["name"]["v"] + "n")
        return CLASS_GEN[c](r)
    if t == "float":
        return _f(r, 0.1, 9.0)
    if t == "int":
        if "lo" in node:  # field whose constructor validates its domain (SimulationConfig.symmetry): a later same-value write re-builds it
            return R("int", v=int(r.integers(node["lo"], node["hi"] + 1)), lo=node["lo"], hi=node["hi"])
        return R("int", v=int(r.integers(0, 9)))
    if t == "str":
        return R("str", v=node["v"] + specgen.choice(r, ["_a", "_b", "2"])) if node["v"] not in ("cpu", "reversible", "checkpointed") else copy.deepcopy(node)
    if t == "bool":
        return R("bool", v=not node["v"])
    if t == "none":
        return R("none")
    if t == "dtype":
        return R("dtype", v=specgen.choice(r, ["float32", "float64", "float16"]))
    if t == "array":
        return _arr(r)
    if t == "tuple":
        return R("tuple", v=[regen(r, x) for x in node["v"]])
    if t == "list":
        n = int(r.integers(0, 4))
        proto = node["v"] or [_f(r)]
        return R("list", v=[regen(r, proto[int(r.integers(0, len(proto)))]) for _ in range(n)])
    if t == "dict":
        proto = list(node["v"].values()) or [_f(r)]
        ks = [KEYS[i] for i in sorted(r.choice(len(KEYS), size=int(r.integers(0, 4)), replace=False))]
        return R("dict", v={k: regen(r, proto[int(r.integers(0, len(proto)))]) for k in ks})
    raise ValueError(t)


def child(node, seg):
    """Child of a recipe node; attributes created later through create_new_ok live in node['x'] (not constructor arguments)."""
    kind, v = seg
    if kind == "a":
        return node["f"][v] if v in node["f"] else node["x"][v]
    return node["v"][v]


def walk_random_path(r, node, max_depth):
    """Random descent; returns (segments, target node).  segments: ("a", name) | ("i", idx) | ("k", key)."""
    segs = []
    cur = node
    while True:
        t = cur["t"]
        opts = []
        if t == "tree":
            opts = [("a", k) for k in cur["f"]] + [("a", k) for k in cur.get("x", {})]
        elif t in ("list", "tuple"):
            opts = [("i", i) for i in range(len(cur["v"]))]
        elif t == "dict":
            opts = [("k", k) for k in cur["v"]]
        if not opts or (segs and (len(segs) >= max_depth or r.uniform() < 0.3)):
            break
        s = opts[int(r.integers(0, len(opts)))]
        segs.append(s)
        cur = child(cur, s)
    return segs, cur


def path_string(r, segs, root):
    """aset syntax; list indices are sometimes written as negative numbers."""
    parts = []
    cur = root
    for kind, v in segs:
        if kind == "a":
            parts.append(v)
            cur = child(cur, (kind, v)) if cur and cur["t"] == "tree" else None
        elif kind == "i":
            n = len(cur["v"]) if cur and cur["t"] in ("list", "tuple") else 0
            if n and r.uniform() < 0.3:
                parts.append(f"[{v - n}]")
            else:
                parts.append(f"[{v}]")
            cur = cur["v"][v] if n else None
        else:
            parts.append(f"['{v}']")
            cur = cur["v"].get(v) if cur and cur["t"] == "dict" else None
    return "->".join(parts)


def recipe_set(root, segs, value):
    """Generator-side structural model (only used to keep later paths valid)."""
    root = copy.deepcopy(root)
    if not segs:
        return root
    cur = root
    for seg in segs[:-1]:
        cur = child(cur, seg)
    kind, v = segs[-1]
    if kind == "a":
        (cur["f"] if v in cur["f"] else cur["x"])[v] = value
    else:
        cur["v"][v] = value
    return root


def has_tuple_on_path(root, segs):
    cur = root
    for kind, v in segs:
        if kind == "i" and cur["t"] == "tuple":
            return True
        cur = child(cur, (kind, v))
    return False


def gen_history(r):
    kind = specgen.choice(r, list(ROOTS), p=[0.25, 0.25, 0.1, 0.4])
    root = ROOTS[kind](r)
    versions = [root]
    ops = []
    for _ in range(int(r.integers(6, 15))):
        on = int(r.integers(0, len(versions)))
        base = versions[on]
        u = r.uniform()
        segs, target = walk_random_path(r, base, max_depth=int(r.integers(1, 7)))
        if not segs:
            continue
        op = {"on": on, "kind": "set"}
        if u < 0.08:  # unknown attribute / key
            segs2, t2 = walk_random_path(r, base, max_depth=int(r.integers(0, 4)))
            if t2["t"] == "tree":
                cand = [k for k in ["extra", "note", "zz_new"] if k not in t2.get("x", {})]
                if not cand:
                    continue
                segs, newseg = segs2, ("a", specgen.choice(r, cand))
            elif t2["t"] == "dict":
                cand = [k for k in KEYS if k not in t2["v"]]
                if not cand:
                    continue
                segs, newseg = segs2, ("k", cand[int(r.integers(0, len(cand)))])
            else:
                continue
            create = bool(r.uniform() < 0.6)
            value = specgen.choice(r, [_f(r), _arr(r), g_leaf(r)])
            op.update(kind="new", create=create, path=path_string(r, segs, base) + ("->" if segs else "") + (newseg[1] if newseg[0] == "a" else f"['{newseg[1]}']"), value=value)
            ops.append(op)
            if create and not has_tuple_on_path(base, segs):
                # structural model: add the new entry
                nb = copy.deepcopy(base)
                cur = nb
                for seg_ in segs:
                    cur = child(cur, seg_)
                if newseg[0] == "a":
                    cur.setdefault("x", {})[newseg[1]] = value
                else:
                    cur["v"][newseg[1]] = value
                op["makes"] = len(versions)
                versions.append(nb)
            continue
        value = copy.deepcopy(target) if u < 0.16 else regen(r, target)
        if u < 0.16:
            op["kind"] = "same_value"
        op.update(path=path_string(r, segs, base), value=value)
        ops.append(op)
        if not has_tuple_on_path(base, segs):
            op["makes"] = len(versions)
            versions.append(recipe_set(base, segs, value))
    return {"root_kind": kind, "root": root, "ops": ops}


def generate(rng, tier, index):
    return {"histories": [gen_history(rng) for _ in range(BATCH)], "probe_seed": int(rng.integers(0, 2**31))}


def shrink(spec):
    out = []
    hs = spec["histories"]
    if len(hs) > 1:
        half = len(hs) // 2
        for part in (hs[:half], hs[half:]):
            s = copy.deepcopy(spec)
            s["histories"] = copy.deepcopy(part)
            out.append(s)
        if len(hs) <= 8:
            for i in range(len(hs)):
                s = copy.deepcopy(spec)
                s["histories"] = [copy.deepcopy(hs[i])]
                out.append(s)
        return out
    h = hs[0]
    # drop one op (later ops that address a version created after it are re-pointed / dropped)
    for i in range(len(h["ops"]) - 1, -1, -1):
        s = copy.deepcopy(spec)
        ops = s["histories"][0]["ops"]
        gone = ops.pop(i)
        m = gone.get("makes")
        if m is not None:
            for o in ops:
                if o["on"] == m:
                    o["on"] = gone["on"]
                elif o["on"] > m:
                    o["on"] -= 1
                if o.get("makes") is not None and o["makes"] > m:
                    o["makes"] -= 1
        out.append(s)
    return out


# ====================================================================== execution side


_CLASSES = None


def classes():
    global _CLASSES
    if _CLASSES is not None:
        return _CLASSES
    import fdtdx
    import jax
    from fdtdx.core.jax.pytrees import TreeClass, autoinit, field, frozen_field
    from fdtdx.interfaces.state import RecordingState

    @autoinit
    class Leaf(TreeClass):
        x: float = field(default=0.0)
        tag: str = frozen_field(default="t")
        arr: jax.Array = field(default=None)

    @autoinit
    class Node(TreeClass):
        child: Leaf = field()
        items: list = field(default=None)
        frozen_items: list = frozen_field(default=None)
        table: dict = field(default=None)
        ftable: dict = frozen_field(default=None)
        pair: tuple = field(default=None)
        value: float = frozen_field(default=0.0)
        nested: list = field(default=None)

    @autoinit
    class Deep(TreeClass):
        node: Node = field()
        nodes: list = field(default=None)
        by_name: dict = field(default=None)
        cfg: fdtdx.SimulationConfig = field(default=None)
        material: fdtdx.Material = field(default=None)

    _CLASSES = {
        "TreeClass": TreeClass,
        "Leaf": Leaf, "Node": Node, "Deep": Deep,
        "Material": fdtdx.Material, "OnOffSwitch": fdtdx.OnOffSwitch, "UniformGrid": fdtdx.UniformGrid, "Recorder": fdtdx.Recorder,
        "LinearReconstructEveryK": fdtdx.LinearReconstructEveryK, "DtypeConversion": fdtdx.DtypeConversion, "GradientConfig": fdtdx.GradientConfig,
        "SimulationConfig": fdtdx.SimulationConfig, "UniformMaterialObject": fdtdx.UniformMaterialObject, "FieldDetector": fdtdx.FieldDetector,
        "SimulationVolume": fdtdx.SimulationVolume, "ObjectContainer": fdtdx.ObjectContainer, "RecordingState": RecordingState,
    }
    return _CLASSES


def build(node):
    """recipe -> real value"""
    import jax.numpy as jnp

    t = node["t"]
    if t == "tree":
        return classes()[node["cls"]](**{k: build(v) for k, v in node["f"].items()})
    if t in ("float", "int", "str", "bool"):
        return node["v"]
    if t == "none":
        return None
    if t == "dtype":
        return {"float32": jnp.float32, "float64": jnp.float64, "float16": jnp.float16, "bfloat16": jnp.bfloat16}[node["v"]]
    if t == "array":
        r = np.random.Generator(np.random.PCG64(node["seed"]))
        a = r.normal(size=tuple(node["shape"]))
        if node["dtype"] == "complex64":
            a = a + 1j * r.normal(size=tuple(node["shape"]))
        if node["dtype"] == "int32":
            a = np.round(a * 10)
        return jnp.asarray(a.astype(node["dtype"]))
    if t == "tuple":
        return tuple(build(x) for x in node["v"])
    if t == "list":
        return [build(x) for x in node["v"]]
    if t == "dict":
        return {k: build(x) for k, x in node["v"].items()}
    raise ValueError(t)


def observe(x):
    """Plain mirror of a real value: every instance attribute of every tree, leaf by leaf."""
    TreeClass = classes()["TreeClass"]
    if isinstance(x, TreeClass):
        out = {"__cls__": type(x).__name__, "fields": {}}
        for name in sorted(vars(x)):
            try:
                v = getattr(x, name)
            except Exception as e:  # unset private field
                out["fields"][name] = ("<unreadable>", type(e).__name__)
                continue
            out["fields"][name] = observe(v)
        return out
    if isinstance(x, list):
        return [observe(v) for v in x]
    if isinstance(x, tuple):
        return {"__tuple__": [observe(v) for v in x]}
    if isinstance(x, dict):
        return {"__dict__": {k: observe(v) for k, v in x.items()}}
    if x is None or isinstance(x, (bool, int, float, str, complex)):
        return ("leaf", type(x).__name__, x)
    if hasattr(x, "shape") and hasattr(x, "dtype"):
        a = np.asarray(x)
        return ("arr", str(a.dtype), tuple(a.shape), a.tobytes())
    rep = repr(x)
    if " at 0x" in rep:
        rep = type(x).__name__
    return ("obj", rep)


def parse_path(s):
    """The documented syntax 'a->b->[0]->['k']', re-implemented for the model."""
    out = []
    for part in s.split("->"):
        out.append(part)
    # keys may contain '->': re-join pieces between an opening "['" and the closing "']"
    merged, buf = [], None
    for p in out:
        if buf is not None:
            buf += "->" + p
            if p.endswith("']"):
                merged.append(buf)
                buf = None
            continue
        if p.startswith("['") and not p.endswith("']"):
            buf = p
            continue
        merged.append(p)
    segs = []
    for p in merged:
        if p.startswith("['"):
            segs.append(("k", p[2:-2]))
        elif p.startswith("["):
            segs.append(("i", int(p[1:-1])))
        else:
            segs.append(("a", p))
    return segs


class ModelReject(Exception):
    pass


def model_get(m, seg):
    kind, v = seg
    if kind == "a":
        if not (isinstance(m, dict) and "__cls__" in m):
            raise ModelReject("attribute on non-tree")
        if v not in m["fields"]:
            raise ModelReject("unknown attribute")
        return m["fields"][v]
    if kind == "i":
        if isinstance(m, list):
            return m[v]
        if isinstance(m, dict) and "__tuple__" in m:
            return m["__tuple__"][v]
        raise ModelReject("index on non-sequence")
    if isinstance(m, dict) and "__dict__" in m:
        if v not in m["__dict__"]:
            raise ModelReject("unknown key")
        return m["__dict__"][v]
    raise ModelReject("key on non-dict")


def model_set(m, segs, value, create):
    """Independent copy-on-write update of the mirror.  Raises ModelReject where the API documents a rejection."""
    m = copy.deepcopy(m)
    cur = m
    for seg in segs[:-1]:
        cur = model_get(cur, seg)
    # every sequence on the path must be writable: a tuple anywhere on the path is a documented rejection
    chk = m
    for seg in segs:
        if seg[0] == "i" and isinstance(chk, dict) and "__tuple__" in chk:
            raise ModelReject("tuple on path")
        try:
            chk = model_get(chk, seg)
        except ModelReject:
            break
    kind, v = segs[-1]
    if kind == "a":
        if not (isinstance(cur, dict) and "__cls__" in cur):
            raise ModelReject("attribute on non-tree")
        if v not in cur["fields"] and not create:
            raise ModelReject("unknown attribute")
        cur["fields"][v] = value
    elif kind == "i":
        if isinstance(cur, list):
            cur[v] = value
        else:
            raise ModelReject("index on non-list")
    else:
        if not (isinstance(cur, dict) and "__dict__" in cur):
            raise ModelReject("key on non-dict")
        if v not in cur["__dict__"] and not create:
            raise ModelReject("unknown key")
        cur["__dict__"][v] = value
    return m


def real_get(x, seg):
    kind, v = seg
    if kind == "a":
        return getattr(x, v)
    return x[v]


def first_diff(a, b, path=""):
    if type(a) is not type(b):
        return path or "<root>"
    if isinstance(a, dict):
        if set(a) != set(b):
            return path + f"{{keys {sorted(set(a) ^ set(b))}}}"
        for k in a:
            d = first_diff(a[k], b[k], f"{path}/{k}")
            if d:
                return d
        return None
    if isinstance(a, list):
        if len(a) != len(b):
            return path + "[len]"
        for i, (x, y) in enumerate(zip(a, b)):
            d = first_diff(x, y, f"{path}[{i}]")
            if d:
                return d
        return None
    return None if a == b else (path or "<root>")


def run_history(h, hi, pr, viol, stats):
    TreeClass = classes()["TreeClass"]
    root = build(h["root"])
    versions = [root]
    mirrors = [observe(root)]
    shapes = set()

    def V(monitor, **kw):
        viol.append({"monitor": monitor, "history": hi, "root_kind": h["root_kind"], **kw})

    def check_all(oi, op, skip=None):
        for vi, (obj, mir) in enumerate(zip(versions, mirrors)):
            if vi == skip:
                continue
            d = first_diff(mir, observe(obj))
            if d:
                V("receiver_mutated" if vi == op["on"] else "other_version_mutated", op_index=oi, path=op["path"], version=vi, receiver=op["on"], where=d)
                mirrors[vi] = observe(obj)  # report once

    for oi, op in enumerate(h["ops"]):
        if op["on"] >= len(versions):
            continue  # the version this op addressed was never created (an earlier update was rejected)
        stats["ops"] += 1
        recv = versions[op["on"]]
        segs = parse_path(op["path"])
        value = build(op["value"])
        vobs = observe(value)
        create = bool(op.get("create", False))
        klass = []
        for s in segs:
            klass.append({"a": "attr", "i": "index", "k": "key"}[s[0]])
        if any(s[0] == "i" and s[1] < 0 for s in segs):
            klass.append("negidx")
        shapes.add("-".join(klass[:4]))
        try:
            want = model_set(mirrors[op["on"]], segs, vobs, create)
            reject = None
        except ModelReject as e:
            want, reject = None, str(e)
        old_obs = None  # value currently stored at the path (taken from the mirror before anything can touch it)
        try:
            cur = mirrors[op["on"]]
            for s in segs:
                cur = model_get(cur, s)
            old_obs = copy.deepcopy(cur)
        except (ModelReject, IndexError, KeyError):
            pass
        try:
            res = recv.aset(op["path"], value, create_new_ok=create)
        except (ValueError,) as e:
            res, err = None, e
        except Exception as e:
            if type(e) is not Exception:
                raise  # undocumented exception type: harness error by policy
            res, err = None, e
        if res is None:
            stats["rejected_ops"] += 1
            stats["probe_rejected_" + (reject or "unmodelled").replace(" ", "_")] = stats.get("probe_rejected_" + (reject or "unmodelled").replace(" ", "_"), 0) + 1
            if reject is None:
                # the library refused something the documented syntax allows
                V("valid_update_rejected", op_index=oi, path=op["path"], error=str(err)[:200])
            check_all(oi, op)  # a refused update must not have changed anything
            continue
        stats["accepted_ops"] += 1
        if op["kind"] == "same_value":
            stats["probe_same_value_write"] = stats.get("probe_same_value_write", 0) + 1
        if create:
            stats["probe_create_new"] = stats.get("probe_create_new", 0) + 1
        if type(res) is not type(recv):
            V("result_type_changed", op_index=oi, path=op["path"], got=type(res).__name__, want=type(recv).__name__)
        if want is None:
            # accepted although the model expected the documented rejection: not covered by the statement; adopt the observed result
            stats["probe_accepted_unmodelled"] = stats.get("probe_accepted_unmodelled", 0) + 1
            want = observe(res)
        got = observe(res)
        d = first_diff(want, got)
        if d:
            V("result_differs_from_model", op_index=oi, path=op["path"], where=d, receiver=op["on"])
        # every live version (the receiver included) still equals its own mirror
        check_all(oi, op)
        # containers on the addressed path must be new objects (only meaningful when the value changed)
        if old_obs is not None and first_diff(old_obs, vobs):
            a, b = recv, res
            shared = []
            if a is b:
                shared.append("<root>")
            for si, s in enumerate(segs[:-1]):
                try:
                    a, b = real_get(a, s), real_get(b, s)
                except Exception:
                    break
                if isinstance(a, (TreeClass, list, dict)) and a is b:
                    shared.append("->".join(str(x[1]) for x in segs[: si + 1]))
            if shared:
                V("path_container_shared", op_index=oi, path=op["path"], shared=shared)
            stats["path_containers_checked"] += len(segs)
        # aliasing probe: write in place into the result's own containers along the path
        if pr.uniform() < 0.5:
            cur = res
            touched = []
            for s in segs[:-1]:  # collect first (an append would shift negative indices), write afterwards
                try:
                    cur = real_get(cur, s)
                except Exception:
                    break
                if isinstance(cur, list):
                    touched.append(("l", cur))
                elif isinstance(cur, dict):
                    touched.append(("d", cur))
            for k_, c in touched:
                if k_ == "l":
                    c.append("__probe__")
                else:
                    c["__probe__"] = 1
            if touched:
                stats["fault_aliasing_probe"] = stats.get("fault_aliasing_probe", 0) + len(touched)
                for vi, (obj, mir) in enumerate(zip(versions, mirrors)):
                    d = first_diff(mir, observe(obj))
                    if d:
                        V("aliasing_write_visible", op_index=oi, path=op["path"], version=vi, where=d)
                for k_, c in reversed(touched):
                    if k_ == "l":
                        c.pop()
                    else:
                        c.pop("__probe__")
        versions.append(res)
        mirrors.append(want)
        if len(versions) >= 2:
            stats["multi_version_ops"] += 1
    stats["versions"] += len(versions)
    return shapes


def execute(spec):
    import hashlib

    viol = []
    stats = {"histories": 0, "ops": 0, "accepted_ops": 0, "rejected_ops": 0, "versions": 0, "multi_version_ops": 0, "path_containers_checked": 0}
    pr = np.random.Generator(np.random.PCG64(spec.get("probe_seed", 0)))
    shapes_all, roots = set(), set()
    dg = hashlib.sha256()
    for hi, h in enumerate(spec["histories"]):
        stats["histories"] += 1
        roots.add(h["root_kind"])
        stats["probe_root_" + h["root_kind"]] = stats.get("probe_root_" + h["root_kind"], 0) + 1
        shapes_all |= run_history(h, hi, pr, viol, stats)
        dg.update(f"{hi}:{stats['accepted_ops']}:{stats['rejected_ops']}:{len(viol)}".encode())
    for s in shapes_all:
        stats["probe_path_" + s] = 1
    for v in viol:
        stats["violations_" + v["monitor"]] = stats.get("violations_" + v["monitor"], 0) + 1
    sig = specgen.signature("C40", sorted(roots), sorted(shapes_all))
    return {"violations": viol[:20], "stats": stats, "residuals": {}, "nontrivial": stats["multi_version_ops"] > 0, "signature": sig,
            "digest": dg.hexdigest()[:16] + f":v{len(viol)}"}
