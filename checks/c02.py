"""C02 — one backward step exactly undoes one forward step.

Schedule: a seeded walk over {FWD, BWD} that keeps 0 <= t <= T (undo/redo of the same step several
times, undo after a host round trip).  Oracle: the first state seen at step t is the reference; every
later visit of t must equal it (history check on the driver's own snapshots).
"""
from __future__ import annotations

import numpy as np

from fdsim import specgen

PROPERTY = "C02"
LEVEL = "exploration"
RUNS = {"quick": 32, "thorough": 800}
RULE = (
    "non-dispersive scenes without PML: faces from {periodic, Bloch, PEC, PMC, zero halo}; uniform/non-uniform grid; random per-cell "
    "materials: iso/diag eps, mu with optional sigma_E / sigma_H (per-step loss factor <= 0.3 so reverse amplification stays bounded) or "
    "lossless full 3x3 SPD tensors; 0-3 sources (electric/magnetic dipoles incl. rotated; uniform, Gaussian and mode plane sources and "
    "TFSF box sources on isotropic media) with random switches and CW/pulse profiles; random wall-compatible initial fields; seeded FWD/BWD walk of length ~3T with "
    "host round trips. non-trivial = at least one BWD step on non-zero fields; distinct = scene signature x walk shape"
)
REAL = ["place_objects", "apply_params", "forward", "backward (update_E_reverse, update_H_reverse, source inverse updates)", "Recorder(modules=[])"]
STUB = ["durable storage = host numpy copy"]
ASSUMPTIONS = ["float64; tolerance 1e-9 relative (reverse steps amplify round-off by <= (1+a)/(1-a) per step in lossy cells)"]
TECHNIQUE = "deterministic simulation: seeded forward/backward walk on the driver-owned clock with per-visit state equality"
LEVEL_TEXT = "Seeded exploration over scenes x FWD/BWD walks; every revisit of a step index must reproduce the first-visit E and H."
LEVEL_NOTE = "float64 CPU; grids <= 9^3, T <= 12, walks <= 40 steps; conductive cells limited to loss factor 0.3"
TOL = 1e-9


def generate(rng, tier, index):
    T = int(rng.integers(3, 13))
    shape = specgen.rand_shape(rng, 3, 8)
    bloch = bool(rng.uniform() < 0.3)
    faces = specgen.rand_faces(rng, kinds_pair=("periodic",), kinds_single=("pec", "pmc", "none"), pml=None, bloch=bloch)
    spec = {"shape": shape, "grid": specgen.rand_grid(rng, shape, 0.4), "steps": T, "faces": faces, "key": int(rng.integers(0, 2**31))}
    if any(f["kind"] == "bloch" for f in faces.values()):
        spec["bloch_vector"] = [
            float(rng.uniform(-1, 1) * np.pi / (shape[a] * specgen.SPACING)) if faces[f"min_{ax}"]["kind"] == "bloch" else 0.0 for a, ax in enumerate("xyz")
        ]
    tier_e = specgen.choice(rng, ["iso", "iso", "diag", "full"])
    m = {"mode": "random", "seed": int(rng.integers(0, 2**31)), "eps_tier": tier_e}
    if rng.uniform() < 0.6:
        m["mu_tier"] = specgen.choice(rng, ["iso", "diag"] + (["full"] if tier_e == "full" else []))
    if tier_e != "full" and m.get("mu_tier") != "full":
        if rng.uniform() < 0.45:
            m["sigma_e_tier"] = specgen.choice(rng, ["iso", "diag"])
            m["sigma_e_max"] = 2.5e-3
        if m.get("mu_tier") and rng.uniform() < 0.45:
            m["sigma_h_tier"] = specgen.choice(rng, ["iso", "diag"])
            m["sigma_h_max"] = 300.0
    spec["materials"] = m
    iso = tier_e == "iso" and m.get("mu_tier") in (None, "iso")
    region = [[0, n] for n in shape]
    srcs = []
    for i in range(int(rng.integers(0, 4))):
        k = specgen.choice(rng, ["dipole", "dipole", "uniform_plane", "gaussian_plane", "tfsf_region", "mode"]) if iso else "dipole"
        if k == "dipole":
            srcs.append(specgen.rand_dipole(rng, f"s{i}", shape, region, T))
        elif k in ("tfsf_region", "mode"):
            s = specgen.rand_tfsf_region(rng, f"s{i}", shape, region, T, faces=faces) if k == "tfsf_region" else specgen.rand_mode_source(rng, f"s{i}", shape, region, T)
            srcs.append(s if s is not None else specgen.rand_dipole(rng, f"s{i}", shape, region, T))
        else:
            s = specgen.rand_plane_source(rng, f"s{i}", shape, region, T, kind=k)
            srcs.append(s if s is not None else specgen.rand_dipole(rng, f"s{i}", shape, region, T))
    spec["sources"] = srcs
    spec["gradient"] = {"method": "reversible", "recorder": []}
    spec["init_seed"] = int(rng.integers(0, 2**31))
    # one scene in three with sources starts from zero fields: every field is then source-made, so a defect in how a
    # source is undone is measured against the source's own scale instead of being dwarfed by O(1) random fields
    spec["init_scale"] = 0.0 if (srcs and rng.uniform() < 0.35) else 1.0
    # seeded walk: first go forward a bit, then random, finally reach T and come back to 0
    walk, t = [], 0
    for _ in range(int(rng.integers(T, 3 * T + 1))):
        if t == 0:
            d = "F"
        elif t == T:
            d = "B"
        else:
            d = "F" if rng.uniform() < 0.55 else "B"
        t += 1 if d == "F" else -1
        walk.append(d)
    walk += ["F"] * (T - t) + ["B"] * T
    spec["ops"] = [{"op": "walk", "steps": "".join(walk), "roundtrip_at": sorted(set(int(x) for x in rng.integers(0, len(walk), size=int(rng.integers(0, 3))))), "reset_fields": bool(rng.uniform() < 0.3)}]
    return spec


def shrink(spec):
    import copy

    out = [s for s in specgen.generic_shrinks(spec) if s.get("ops")]
    op = spec["ops"][0]
    w = op["steps"]
    # shorten the walk: keep a prefix that ends with its own undo
    for cut in (len(w) // 2, len(w) - 2):
        if 2 <= cut < len(w):
            pre = w[:cut]
            t = pre.count("F") - pre.count("B")
            s = copy.deepcopy(spec)
            s["ops"][0]["steps"] = pre + "B" * t
            s["ops"][0]["roundtrip_at"] = [x for x in op["roundtrip_at"] if x < cut]
            out.append(s)
    if op["roundtrip_at"]:
        s = copy.deepcopy(spec)
        s["ops"][0]["roundtrip_at"] = []
        out.append(s)
    if op.get("reset_fields"):
        s = copy.deepcopy(spec)
        s["ops"][0]["reset_fields"] = False
        out.append(s)
    return out


def execute(spec):
    from fdsim import scene as sc, driver as dr

    try:
        scn = sc.build_scene(spec)
    except NotImplementedError as e:
        return {"rejected": True, "nontrivial": False, "stats": {"rejected": 1}, "digest": "rejected:" + str(e)[:40]}
    E0, H0 = sc.random_fields(scn, spec["init_seed"], scale=float(spec.get("init_scale", 1.0)))
    arrays = scn.arrays.aset("fields->E", E0).aset("fields->H", H0)
    st = dr.Stepper(scn, record_detectors=False, record_boundaries=False)
    state = st.state0(arrays)
    op = spec["ops"][0]
    first = {0: (np.array(E0), np.array(H0))}
    visits = {0: 1}
    viol, stats, resid = [], {"sim_steps": 0, "sim_time_fs": 0.0}, {"revisit": 0.0}
    rt = set(op["roundtrip_at"])
    t = 0
    nontrivial = False
    scale = max(float(np.max(np.abs(np.array(E0)))), float(np.max(np.abs(np.array(H0)))))
    for i, d in enumerate(op["steps"]):
        if i in rt:
            state = dr.roundtrip(state)
            stats["fault_host_roundtrip"] = stats.get("fault_host_roundtrip", 0) + 1
        if d == "F":
            state = st.fwd(state, 1)
            t += 1
        else:
            state = st.bwd(state, 1, reset_fields=bool(op.get("reset_fields")), record_detectors=False)
            t -= 1
            stats["fault_undo"] = stats.get("fault_undo", 0) + 1
            nontrivial = True
        stats["sim_steps"] += 1
        if int(state[0]) != t:
            viol.append({"monitor": "clock_mismatch", "step": t, "got": int(state[0]), "op_index": i})
            break
        f = dr.fields_np(state)
        if t not in first:
            first[t] = (f["E"], f["H"])
            visits[t] = 1
            scale = max(scale, float(np.max(np.abs(f["E"]))), float(np.max(np.abs(f["H"]))))
            continue
        visits[t] += 1
        dE = dr.rel_diff(first[t][0], f["E"], scale)
        dH = dr.rel_diff(first[t][1], f["H"], scale)
        worst = max(dE, dH)
        resid["revisit"] = max(resid["revisit"], worst if np.isfinite(worst) else 1e300)
        if not (worst <= TOL):
            viol.append({"monitor": "undo_mismatch", "step": t, "op_index": i, "dir": d, "field": "E" if dE >= dH else "H", "metric": "rel_diff", "value": worst, "tolerance": TOL})
            break
    stats["sim_time_fs"] = stats["sim_steps"] * scn.dt * 1e15
    m = spec["materials"]
    stats["probe_full_tensor"] = int(m.get("eps_tier") == "full")
    stats["probe_sigma_e"] = int(bool(m.get("sigma_e_tier")))
    stats["probe_sigma_h"] = int(bool(m.get("sigma_h_tier")))
    stats["probe_complex"] = int(np.iscomplexobj(first[0][0]))
    stats["probe_sources"] = len(spec.get("sources", []))
    for s_ in spec.get("sources", []):
        stats["probe_source_" + s_["kind"]] = stats.get("probe_source_" + s_["kind"], 0) + 1
    stats["probe_switched_source"] = sum(1 for s in spec.get("sources", []) if s.get("switch"))
    stats["max_visits"] = max(visits.values())
    stats["probe_zero_initial_fields"] = int(spec.get("init_scale", 1.0) == 0.0)
    sig = specgen.scene_signature(spec, bool(rt), bool(op.get("reset_fields")), min(4, max(visits.values())))
    digest = dr.digest_arrays(dr.fields_np(state)) + f":{dr.sig3(resid['revisit'])}:v{len(viol)}"
    return {"violations": viol, "stats": stats, "residuals": resid, "nontrivial": bool(nontrivial and scale > 0), "signature": sig, "digest": digest}
