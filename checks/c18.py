"""C18 — device parameters map to materials exactly as documented (history machine, see _devmachine)."""
from checks import _devmachine as dm

PROPERTY = "C18"
LEVEL = "exploration"
RUNS = {"quick": 28, "thorough": 600}
RULE = (
    "seeded containers: 1-2 disjoint devices (continuous two-material, discrete 2-4 materials via nearest index, etched) with voxel sizes 1-3 "
    "cells, material tier iso/diag/full, optional dispersive and magnetic materials, 0-2 background boxes, one static probe cell per device "
    "material; histories of 2-6 operations from {APPLY(seeded parameter set), DUP, RUN(3-step simulation)}; discrete parameters kept 0.15 away "
    "from rounding ties. non-trivial = at least one APPLY; distinct = boundary tuple x grid kind x component count x device kinds x op sequence"
)
REAL = ["place_objects", "apply_params", "Device.__call__ (transform chain, voxel expansion)", "ClosestIndex", "StandardToCustomRange", "run_fdtd"]
STUB = []
ASSUMPTIONS = ["float64; blend oracle 1e-12; cells outside devices compared bitwise with the freshly placed arrays", "per-material reference vectors (incl. dispersion coefficients) are read from one-cell static objects of the same material in the same scene"]
TECHNIQUE = "deterministic simulation: seeded operation history (apply / duplicate apply / interleaved run) on one container against a per-cell reference model"
LEVEL_TEXT = "Seeded exploration of parameter-application histories; after every APPLY every device cell and every non-device cell is compared with the model, and the final materials with a single application of the last parameter set."
LEVEL_NOTE = "float64 CPU; grids <= 10^3; transform chains limited to identity (continuous) and range-map + nearest index (discrete)"


def generate(rng, tier, index):
    return dm.generate(rng, tier, index, "C18")


def execute(spec):
    return dm.execute(spec, "C18")


shrink = dm.shrink
