#!/bin/bash
# Usage: sweep.sh <VERIF_SEED> [workers] [PROP ...]  -- run quick checks under another seed into a scratch dir (evidence/replays untouched)
SEED=$1; W=${2:-4}; shift 2
OUT=/tmp/sweep_$SEED; mkdir -p $OUT/evidence $OUT/replays
cd "$(dirname "$(readlink -f "$0")")/.."   # the tree this script lives in (a vp-run snapshot or /verif)
PROPS=${@:-$(/venv/bin/python -c "import json;print(' '.join(x['property_id'] for x in json.load(open('MANIFEST.json'))['checks']))")}
for c in $PROPS; do
  t0=$(date +%s)
  VERIF_SEED=$SEED VERIF_WORKERS=$W VERIF_EVIDENCE_DIR=$OUT/evidence VERIF_REPLAY_DIR=$OUT/replays timeout 1800 /venv/bin/python run_check.py $c --tier quick > $OUT/$c.log 2>&1
  rc=$?
  echo "$c seed=$SEED rc=$rc wall=$(( $(date +%s) - t0 ))s known=$(grep -c '^KNOWN-FINDING' $OUT/$c.log) viol=$(grep -c '^VIOLATION' $OUT/$c.log) harness=$(grep -c '^HARNESS-ERROR' $OUT/$c.log)" | tee -a $OUT/summary.txt
done
