"""C09 — a periodic / Bloch domain evolves exactly like its supercell.

Replicas: a base cell of N cells and a supercell of m*N cells (m in {2,3} independently along every
periodic / Bloch axis, 1 along the others) with the same boundary objects and the same Bloch vector
k; the supercell's per-cell material tensors are the base arrays tiled, its initial fields are the
base fields tiled and multiplied by exp(i k_a L_a j) for copy j along axis a (L_a = physical length
of the base cell).  Both are stepped in lockstep; after every step every copy in the supercell must
equal the base cell times its phase (E, H, PML auxiliaries, full-volume detector records).  One of
the two replicas is also pushed through the library's own loop with a seeded cut.
"""
from __future__ import annotations

import copy

import numpy as np

from fdsim import replica as rp
from fdsim import specgen

PROPERTY = "C09"
LEVEL = "exploration"
RUNS = {"quick": 24, "thorough": 400}
TOL = 1e-11
# share of runs on a non-uniform base cell (cell widths tiled like the materials):
P_RECT_EQUAL_ENDS = 0.2  # first and last width equal along every tiled axis
P_RECT_FREE = 0.15  # arbitrary widths (see KNOWN_PREDICATES: the library's dual-cell width at a wrap ignores the far cell)
RULE = (
    "seeded base cells of 3-5 cells per axis on a uniform grid (65%) or with random cell widths that are tiled with the cell (35%, of which "
    "20 points keep the first and last width of a tiled axis equal); every axis is a periodic or Bloch pair with probability 0.6 (at least one), "
    "tiling factor 2 or 3 per paired axis; other axes take PEC / PMC / none / (rarely) PML 2; k=0 runs use kind 'periodic' and real fields, "
    "k!=0 runs use kind 'bloch' with k_a uniform in +-2pi/L_a and complex fields (periodic and Bloch axes may be mixed); per-cell random "
    "material tensors (iso / diagonal / full eps and mu, optional conductivities) tiled; random initial fields, no sources; full-volume "
    "detectors (k=0: field + reduced energy; k!=0: phasor + reduced energy) with and without co-location. non-trivial = fields non-zero at the "
    "end; distinct = boundary tuple x material tiers x tiling tuple x real/complex x loop kind"
)
REAL = ["BlochBoundary (pad correction, wrap padding)", "place_objects", "apply_params", "forward", "custom_fdtd_forward", "PEC/PMC/PML on the other axes"]
STUB = ["per-cell material arrays are written into the placed ArrayContainer (np.tile of the base arrays)", "tqdm disabled"]
ASSUMPTIONS = [
    "float64 / complex128; criterion 1e-11 relative to the per-array max (arrays below 1e-3 of the field maximum are judged on that absolute scale)",
    "on non-uniform grids the supercell's cell widths are the base widths tiled and L_a is the sum of the base widths (the statement tiles materials and fields; tiling the mesh with them is the only reading under which both domains describe the same structure)",
    "no sources (the statement is about free evolution of tiled initial data)",
    "field detectors are used only in real (k=0) runs: a real-typed record of a complex field keeps the real part only, which does not commute with the phase",
]
TECHNIQUE = "deterministic simulation: base cell and supercell stepped in lockstep by the driver, one of them also through the real loop with a seeded cut"
LEVEL_TEXT = "Seeded search over cells, tilings, k and materials; the supercell identity is checked copy by copy after every step. Evidence, not proof."
LEVEL_NOTE = "float64, XLA CPU single thread; the oracle is the same code on the other domain size (a defect independent of the domain length is invisible)"


def generate(rng, tier, index):
    T = int(rng.integers(5, 11))
    bloch_run = bool(rng.uniform() < 0.55)
    paired = [bool(rng.uniform() < 0.6) for _ in range(3)]
    if not any(paired):
        paired[int(rng.integers(0, 3))] = True
    shp = specgen.rand_shape(rng, 3, 5)
    faces, tile, kinds = {}, [1, 1, 1], []
    for a, ax in enumerate("xyz"):
        if paired[a]:
            k = "bloch" if (bloch_run and rng.uniform() < 0.7) else "periodic"
            kinds.append(k)
            faces[f"min_{ax}"] = {"kind": k}
            faces[f"max_{ax}"] = {"kind": k}
            tile[a] = int(rng.integers(2, 4))
        else:
            for d in ("min", "max"):
                k = specgen.choice(rng, ["pec", "pmc", "none", "pml"], p=[0.3, 0.3, 0.3, 0.1])
                faces[f"{d}_{ax}"] = {"kind": k, **({"thickness": 2} if k == "pml" else {})}
            t = sum(faces[f"{d}_{ax}"].get("thickness", 0) for d in ("min", "max"))
            shp[a] = max(shp[a], t + 3)
    if bloch_run and "bloch" not in kinds:
        a = [i for i in range(3) if paired[i]][0]
        faces[f"min_{'xyz'[a]}"] = {"kind": "bloch"}
        faces[f"max_{'xyz'[a]}"] = {"kind": "bloch"}
    # one wrap axis in five is a single cell long (the quasi-2D / conical-incidence set-up): its two ghost cells are the cell itself
    for a, ax in enumerate("xyz"):
        if paired[a] and rng.uniform() < 0.2:
            shp[a] = 1
    # half of the scenes build their boundaries through the documented BoundaryConfig path (needs a boundary on every face:
    # open faces become PEC walls there); a plain periodic axis must stay unshifted next to a Bloch axis with k != 0
    via_config = bool(rng.uniform() < 0.5)
    if via_config:
        for f_ in faces:
            if faces[f_]["kind"] == "none":
                faces[f_] = {"kind": "pec"}
    s = specgen.SPACING
    grid = {"kind": "uniform", "spacing": s}
    u = rng.uniform()
    if u < P_RECT_EQUAL_ENDS + P_RECT_FREE:
        edges = []
        for a in range(3):
            w = s * np.exp(rng.uniform(-0.35, 0.35, size=shp[a]))
            if u < P_RECT_EQUAL_ENDS and paired[a]:
                w[-1] = w[0]
            e = np.concatenate([[0.0], np.cumsum(w)])
            edges.append([float(x) for x in e - e[-1] / 2])
        grid = {"kind": "rect", "edges": edges}
    spec = {"shape": shp, "grid": grid, "steps": T, "faces": faces, "key": int(rng.integers(0, 2**31)), "tile": tile, "sources": [], "faces_via_config": via_config}
    if bloch_run:
        spec["bloch_vector"] = [float(rng.uniform(-2, 2) * np.pi / cell_lengths(spec)[a]) if faces[f"min_{ax}"]["kind"] == "bloch" else 0.0 for a, ax in enumerate("xyz")]
    if bloch_run and via_config:
        # the vector handed to BoundaryConfig also has (irrelevant) components along the non-Bloch axes
        spec["bloch_vector_config"] = [k if faces[f"min_{ax}"]["kind"] == "bloch" else float(rng.uniform(0.5, 2) * np.pi / cell_lengths(spec)[a]) for a, (ax, k) in enumerate(zip("xyz", spec["bloch_vector"]))]
    full = [[0, n] for n in shp]
    dets = [{"kind": "energy", "name": "d_energy", "box": full, "reduce": True, "exact": bool(rng.uniform() < 0.5)}]
    if bloch_run:
        dets.append({"kind": "phasor", "name": "d_phasor", "box": full, "reduce": False, "exact": bool(rng.uniform() < 0.5),
                     "wavelengths": [float(rng.uniform(6, 14)) * s], "components": specgen.rand_components(rng)})
    else:
        dets.append({"kind": "field", "name": "d_field", "box": full, "reduce": False, "exact": bool(rng.uniform() < 0.5), "components": specgen.rand_components(rng)})
    for d in dets:
        sw = specgen.rand_switch(rng, T, need_active=True)
        if sw:
            d["switch"] = sw
    spec["detectors"] = dets
    spec["materials"] = rp.rand_tensor_materials(rng, shp)
    spec["init_seed"] = int(rng.integers(0, 2**31))
    spec["_needs_init"] = True
    spec["loop"] = {"replica": int(rng.integers(0, 2)), "cut": int(rng.integers(1, T)) if rng.uniform() < 0.7 else None}
    return spec


def wrap_width_mismatch(spec) -> bool:
    """Non-uniform base cell whose first and last widths differ along a tiled (periodic/Bloch) axis."""
    if spec["grid"]["kind"] != "rect":
        return False
    w = cell_widths(spec)
    return any(spec["tile"][a] > 1 and abs(w[a][0] - w[a][-1]) > 1e-9 * w[a][0] for a in range(3))


# known_findings.json predicate names -> predicate(spec, violation)
KNOWN_PREDICATES = {
    # curl._metric_scale('backward'), curl._backward_edge_average and get_anisotropic_averaging_widths take the
    # previous cell of index 0 to be cell 0 itself (edge replication) also on wrap axes, where it is cell N-1
    "nonuniform_wrap_dual_width": lambda spec, v: v["monitor"] in ("supercell_fields", "supercell_records") and wrap_width_mismatch(spec),
}


def shrink(spec):
    out = [s for s in rp.shrinks(spec, keep_pairs=True) if not (spec["grid"]["kind"] == "rect" and s["grid"]["kind"] != "rect")]
    if spec["grid"]["kind"] == "rect":
        # uniform widths along one axis at a time (keeps the tiled-mesh reading intact)
        for a in range(3):
            w = cell_widths(spec)[a]
            if np.ptp(w) > 0:
                s = copy.deepcopy(spec)
                n = spec["shape"][a]
                s["grid"]["edges"][a] = [float(x) for x in (np.arange(n + 1) - n / 2) * specgen.SPACING]
                if "bloch_vector" in s:
                    s["bloch_vector"][a] = spec["bloch_vector"][a] * cell_lengths(spec)[a] / (n * specgen.SPACING)
                    if "bloch_vector_config" in s and spec["faces"][f"min_{'xyz'[a]}"]["kind"] == "bloch":
                        s["bloch_vector_config"][a] = s["bloch_vector"][a]
                out.append(s)
        if not any(np.ptp(w) > 0 for w in cell_widths(spec)):
            s = copy.deepcopy(spec)
            s["grid"] = {"kind": "uniform", "spacing": specgen.SPACING}
            out.append(s)
    for a in range(3):
        if spec["tile"][a] > 2:
            s = copy.deepcopy(spec)
            s["tile"][a] = 2
            out.append(s)
        if spec["tile"][a] > 1 and sum(1 for t in spec["tile"] if t > 1) > 1:
            s = copy.deepcopy(spec)
            s["tile"][a] = 1
            out.append(s)
    return out


def cell_widths(spec):
    g = spec["grid"]
    if g["kind"] == "uniform":
        return [np.full(n, g["spacing"]) for n in spec["shape"]]
    return [np.diff(np.asarray(e, dtype=np.float64)) for e in g["edges"]]


def cell_lengths(spec):
    g = spec["grid"]
    if g["kind"] == "uniform":
        return [n * g["spacing"] for n in spec["shape"]]
    return [float(e[-1] - e[0]) for e in g["edges"]]


def super_spec(spec):
    s = copy.deepcopy(spec)
    tile = [int(t) for t in spec["tile"]]
    s["shape"] = [n * t for n, t in zip(spec["shape"], tile)]
    if spec["grid"]["kind"] == "rect":
        edges = []
        for w, t in zip(cell_widths(spec), tile):
            e = np.concatenate([[0.0], np.cumsum(np.tile(w, t))])
            edges.append([float(x) for x in e - e[-1] / 2])
        s["grid"] = {"kind": "rect", "edges": edges}
    s["materials"]["tile"] = tile
    for d in s["detectors"]:
        d["box"] = [[lo * t, hi * t] for (lo, hi), t in zip(d["box"], tile)]  # full-volume boxes only
    return s


def phase_array(spec):
    """P[x,y,z] = prod_a exp(i k_a L_a floor(idx_a / N_a)) on the supercell (real ones when k = 0)."""
    k = spec.get("bloch_vector", [0.0, 0.0, 0.0])
    tile, shp, L = spec["tile"], spec["shape"], cell_lengths(spec)
    kinds = [spec["faces"][f"min_{ax}"]["kind"] for ax in "xyz"]
    cplx = any(kinds[a] == "bloch" and k[a] != 0.0 for a in range(3))
    P = np.ones([n * t for n, t in zip(shp, tile)], dtype=np.complex128 if cplx else np.float64)
    for a in range(3):
        if kinds[a] == "bloch" and k[a] != 0.0:
            j = np.repeat(np.arange(tile[a]), shp[a])
            ph = np.exp(1j * k[a] * L[a] * j)
            sh = [1, 1, 1]
            sh[a] = len(j)
            P = P * ph.reshape(sh)
    return P


def execute(spec):
    rp.setup()
    from fdsim import driver as dr
    from fdsim import scene as sc

    tile = tuple(int(t) for t in spec["tile"])
    specs = [spec, super_spec(spec)]
    for f in ("min", "max"):
        for ax, t in zip("xyz", tile):
            if t > 1 and spec["faces"][f"{f}_{ax}"]["kind"] not in ("periodic", "bloch"):
                raise rp.env.HarnessError("tiling along a non-periodic axis")
    try:
        scenes = [rp.build(s) for s in specs]
    except (ValueError, NotImplementedError) as e:
        return rp.rejected(e)
    T = scenes[0].T
    mon = rp.Monitors()
    stats = {"sim_steps": 0, "sim_time_fs": 0.0, **rp.common_probes(spec)}
    P = phase_array(spec)
    cplx = bool(np.iscomplexobj(P))
    stats["probe_complex"] = int(cplx)
    stats["probe_mixed_pairs"] = int(len({spec["faces"][f"min_{ax}"]["kind"] for ax in "xyz"} & {"periodic", "bloch"}) == 2)
    stats["probe_tile3"] = int(3 in tile)
    stats["probe_wrap_width_mismatch"] = int(wrap_width_mismatch(spec))
    stats["probe_multi_axis_tiling"] = int(sum(1 for t in tile if t > 1) > 1)
    if bool(np.iscomplexobj(np.array(scenes[0].arrays.fields.E))) != cplx:
        raise rp.env.HarnessError("field storage does not match the Bloch vector")

    def lift(arr, lead, slab=None):
        """base array (lead non-spatial axes, then x,y,z) -> expected supercell array."""
        big = np.tile(arr, (1,) * lead + tile)
        Pl = P if slab is None else P[slab]
        return big * Pl.reshape((1,) * lead + Pl.shape)

    slabs = {}
    for sl_b, sl_s, face in zip(sc.pml_slices(specs[0]), sc.pml_slices(specs[1]), [f for f, v in spec["faces"].items() if v["kind"] == "pml"]):
        slabs[f"bnd_{face}"] = sl_s

    def lift_fields(f):
        out = {}
        for key, v in f.items():
            if key in ("E", "H"):
                out[key] = lift(v, 1)
            else:
                out[key] = lift(v, 0, slabs[key.split("/")[1]])
        return out

    kind = {d["name"]: d["kind"] for d in spec["detectors"]}

    def lift_records(r):
        out = {}
        for key, v in r.items():
            k = kind[key.split("/")[0]]
            if k == "energy":
                out[key] = v * float(np.prod(tile))
            else:
                out[key] = lift(v, v.ndim - 3)
        return out

    E0, H0 = rp.random_init(scenes[0], spec["init_seed"], scale=0.5)
    arrays = [rp.set_fields(scenes[0], E0, H0), rp.set_fields(scenes[1], lift(E0, 1), lift(H0, 1))]
    steppers = [dr.Stepper(s) for s in scenes]
    states = [st.state0(a) for st, a in zip(steppers, arrays)]
    fb, g_run = None, 0.0
    for t in range(T):
        states = [st.fwd(s) for st, s in zip(steppers, states)]
        rp.count_steps(stats, 2, scenes[0].dt)
        fb = dr.fields_np(states[0])
        g = rp.field_scale(fb)
        g_run = max(g_run, g)
        mon.dicts("supercell_fields", t, lift_fields(fb), dr.fields_np(states[1]), TOL, floors=rp.FLOOR * g)
        want = lift_records(dr.detectors_np(states[0]))
        mon.dicts("supercell_records", t, want, dr.detectors_np(states[1]), TOL, floors=rp.record_floors(spec, g_run, want))
    nontrivial = bool(np.max(np.abs(fb["E"])) > 0 or np.max(np.abs(fb["H"])) > 0)

    lp = spec.get("loop") or {}
    k = int(lp.get("replica", 0))
    fired = rp.loop_check(mon, stats, scenes[k], arrays[k], states[k], lp, False, TOL, ["base", "supercell"][k])
    sig = specgen.scene_signature(spec, list(tile), cplx, sorted(fired), k)
    return rp.finish(mon, stats, nontrivial, sig, fb)
