"""Child process for C14's S-parameter-driver history (float32, x64 off: setup_sparams_simulation builds a float32 config).

History under test (the library's own flow, fdtdx.utils.sparams.calculate_sparam):
  place all port sources -> switch every source except the active port off (functional update of its OnOffSwitch)
  -> apply_params -> run.
Counterfactual: the same call on a container from which the other port sources were removed altogether.
Prints one line "CHILD-RESULT <json>" with the worst relative difference of every detector state.
"""
import json
import os
import sys

ROOT = os.path.dirname(os.path.dirname(os.path.abspath(__file__)))
sys.path.insert(0, ROOT)


def main():
    spec = json.load(sys.stdin)
    from fdsim import env

    env.bootstrap(x64=False, threads=1)
    import fdtdx
    import numpy as np
    from fdtdx.utils.sparams import PortSpec, calculate_sparam, setup_sparams_simulation

    S = spec["spacing"]
    ax = spec["axis"]
    t1, t2 = [a for a in range(3) if a != ax]

    def port(p):
        c = [0.0, 0.0, 0.0]
        c[ax] = p["pos"] * S
        c[t1], c[t2] = p["center"][0] * S, p["center"][1] * S
        return PortSpec(center=tuple(c), axis=ax, direction=p["direction"], width=p["size"][0] * S, height=p["size"][1] * S, mode_index=p.get("mode_index", 0), filter_pol=p.get("filter_pol"), name=p["name"])

    dom = [0.0, 0.0, 0.0]
    dom[ax] = spec["length"] * S
    dom[t1], dom[t2] = spec["cross"][0] * S, spec["cross"][1] * S
    objs, arrays, config = setup_sparams_simulation(
        polygons=[], input_ports=[port(p) for p in spec["inputs"]], output_ports=[port(p) for p in spec["outputs"]],
        wavelength=spec["wavelength_cells"] * S, resolution=S, max_time=spec["steps"] * S / 299792458.0 * 0.58,
        domain_size=tuple(dom), background_material=fdtdx.Material(permittivity=spec["eps"]), pml_layers=spec["pml"],
    )
    active = spec["active"]
    try:
        _, st_all = calculate_sparam(objs, arrays, config, input_port_name=active, show_progress=False)
        only = objs.replace_sources([s for s in objs.sources if s.name == active])
        _, st_one = calculate_sparam(only, arrays, config, input_port_name=active, show_progress=False)
    except Exception as e:  # the external eigen-solver gives up on (nearly) degenerate modes of a homogeneous port: not this property
        if "ArpackError" in repr(e) or "ARPACK" in str(e):
            print("CHILD-REJECT arpack")
            return
        raise
    out = {"T": int(config.time_steps_total), "n_sources": len(objs.sources), "diff": {}, "scale": {}}
    for k in sorted(st_one):
        for k2 in sorted(st_one[k]):
            a, b = np.array(st_all[k][k2]), np.array(st_one[k][k2])
            sc = float(np.max(np.abs(b))) if b.size else 0.0
            d = float(np.max(np.abs(a - b))) if b.size else 0.0
            out["diff"][f"{k}/{k2}"] = d
            out["scale"][f"{k}/{k2}"] = sc
    print("CHILD-RESULT " + json.dumps(out))


if __name__ == "__main__":
    main()
