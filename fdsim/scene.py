"""Scene specification (plain JSON) -> real fdtdx objects / arrays / config.

A spec is self-contained: random arrays are pure functions of integer sub-seeds stored in the
spec (numpy PCG64), so a replay file needs neither the driver PRNG nor the run index.
"""
from __future__ import annotations

import copy
import math
from dataclasses import dataclass, field as dc_field
from typing import Any

import numpy as np

from fdsim import env

FACES = ("min_x", "max_x", "min_y", "max_y", "min_z", "max_z")
C0 = 299792458.0


def face_axis_dir(face: str) -> tuple[int, str]:
    d, a = face.split("_")
    return "xyz".index(a), "-" if d == "min" else "+"


@dataclass
class Scene:
    spec: dict
    objects: Any
    arrays: Any
    config: Any
    params: Any
    info: Any
    key: Any
    extra: dict = dc_field(default_factory=dict)

    @property
    def T(self) -> int:
        return int(self.config.time_steps_total)

    @property
    def dt(self) -> float:
        return float(self.config.time_step_duration)

    @property
    def shape(self) -> tuple[int, int, int]:
        return tuple(self.objects.volume.grid_shape)


def np_rng(seed: int) -> np.random.Generator:
    return np.random.Generator(np.random.PCG64(int(seed) & 0xFFFFFFFFFFFFFFFF))


# ---------------------------------------------------------------- grid / config


def make_edges(n: int, spacing: float, seed: int, ratio: float = 2.0) -> list[float]:
    """Random strictly increasing edges with width ratio <= `ratio`, mean width ~ spacing."""
    r = np_rng(seed)
    w = spacing * np.exp(r.uniform(-0.5 * math.log(ratio), 0.5 * math.log(ratio), size=n))
    e = np.concatenate([[0.0], np.cumsum(w)])
    e = e - e[-1] / 2
    return [float(x) for x in e]


def build_grid(spec: dict):
    import fdtdx

    g = spec["grid"]
    shape = tuple(spec["shape"])
    ctr = tuple(float(x) for x in g.get("center", (0.0, 0.0, 0.0)))  # physical coordinate of the domain centre
    if g["kind"] == "uniform":
        return fdtdx.UniformGrid(spacing=g["spacing"], center=ctr)
    if g["kind"] == "quasi":
        return fdtdx.QuasiUniformGrid(dx=g["d"][0], dy=g["d"][1], dz=g["d"][2], center=ctr)
    if g["kind"] == "rect_uniform":
        import jax.numpy as jnp

        s = g["spacing"]
        edges = [jnp.asarray(np.arange(n + 1) * s - n * s / 2.0 + c) for n, c in zip(shape, ctr)]
        return fdtdx.RectilinearGrid(x_edges=edges[0], y_edges=edges[1], z_edges=edges[2])
    if g["kind"] == "rect":
        import jax.numpy as jnp

        e = g["edges"]
        assert [len(x) - 1 for x in e] == list(shape), "edges/shape mismatch"
        return fdtdx.RectilinearGrid(
            x_edges=jnp.asarray(np.asarray(e[0])), y_edges=jnp.asarray(np.asarray(e[1])), z_edges=jnp.asarray(np.asarray(e[2]))
        )
    raise env.HarnessError(f"unknown grid kind {g['kind']}")


def grid_spec_dt(spec: dict) -> float:
    """Time step duration the library will use (computed via the library's own config)."""
    cfg = _config(spec, time=1e-15)
    g = cfg.grid
    import fdtdx

    if not isinstance(g, fdtdx.RectilinearGrid):
        try:
            g = g.resolve(tuple(spec["shape"]))
            cfg = cfg.aset("grid", g)
        except Exception:
            pass
    return float(cfg.time_step_duration)


def _dtype(spec):
    import jax.numpy as jnp

    return {"float64": jnp.float64, "float32": jnp.float32}[spec.get("dtype", "float64")]


def _config(spec: dict, time: float, gradient_config=None):
    import fdtdx

    return fdtdx.SimulationConfig(
        time=time,
        grid=build_grid(spec),
        backend="cpu",
        dtype=_dtype(spec),
        courant_factor=spec.get("courant", 0.99),
        use_complex_fields=spec.get("complex", None),
        symmetry=tuple(spec.get("symmetry", (0, 0, 0))),
        gradient_config=gradient_config,
    )


def build_config(spec: dict):
    dt = grid_spec_dt(spec)
    T = int(spec["steps"])
    grad = None
    g = spec.get("gradient")
    if g is not None:
        import fdtdx

        if g["method"] == "reversible":
            grad = fdtdx.GradientConfig(
                method="reversible",
                recorder=build_recorder(g.get("recorder", [])),
                num_checkpoints_reversible=int(g.get("num_checkpoints_reversible", 0)),
            )
        else:
            grad = fdtdx.GradientConfig(method="checkpointed", num_checkpoints=int(g["num_checkpoints"]))
    cfg = _config(spec, time=(T + 0.25) * dt, gradient_config=grad)
    return cfg


def build_recorder(mods: list):
    import fdtdx
    import jax.numpy as jnp

    out = []
    for m in mods:
        if m["kind"] == "everyk":
            out.append(fdtdx.LinearReconstructEveryK(k=int(m["k"]), start_recording_after=int(m.get("start", 0))))
        elif m["kind"] == "dtype":
            out.append(fdtdx.DtypeConversion(dtype={"float32": jnp.float32, "float64": jnp.float64, "float16": jnp.float16, "bfloat16": jnp.bfloat16, "complex64": jnp.complex64, "complex128": jnp.complex128}[m["dtype"]]))
        else:
            raise env.HarnessError(f"unknown recorder module {m}")
    return fdtdx.Recorder(modules=out)


# ---------------------------------------------------------------- objects


def build_material(m: dict | None):
    import fdtdx

    if m is None:
        return fdtdx.Material()
    kw = {}
    for k in ("permittivity", "permeability", "electric_conductivity", "magnetic_conductivity"):
        if k in m:
            v = m[k]
            kw[k] = tuple(tuple(r) if isinstance(r, (list, tuple)) else r for r in v) if isinstance(v, (list, tuple)) else v
    if "dispersion" in m and m["dispersion"]:
        kw["dispersion"] = build_dispersion(m["dispersion"])
    return fdtdx.Material(**kw)


def build_dispersion(d: dict):
    import fdtdx

    poles = []

    def tup(v):  # per-axis parameters are stored as 3-lists in the JSON spec
        return tuple(float(x) for x in v) if isinstance(v, (list, tuple)) else v

    for p in d["poles"]:
        if p["kind"] == "lorentz":
            poles.append(fdtdx.LorentzPole(resonance_frequency=tup(p["w0"]), damping=tup(p["gamma"]), delta_epsilon=tup(p["deps"])))
        elif p["kind"] == "drude":
            poles.append(fdtdx.DrudePole(plasma_frequency=tup(p["wp"]), damping=tup(p["gamma"])))
        else:
            raise env.HarnessError(f"unknown pole {p}")
    return fdtdx.DispersionModel(poles=tuple(poles))


def build_switch(s: dict | None, dt: float):
    import fdtdx

    if not s:
        return fdtdx.OnOffSwitch()
    kw = {}
    for k, v in s.items():
        if v is None:
            continue
        if k.endswith("_dt"):
            kw[k[:-3]] = float(v) * dt
        elif k == "fixed_on_time_steps":
            kw[k] = [int(x) for x in v]
        else:
            kw[k] = v
    return fdtdx.OnOffSwitch(**kw)


def build_profile(p: dict | None):
    from fdtdx.objects.sources.profile import GaussianPulseProfile, SingleFrequencyProfile
    import fdtdx

    if not p or p["kind"] == "cw":
        kw = {}
        if p and "phase_shift" in p:
            kw["phase_shift"] = p["phase_shift"]
        if p and "num_startup_periods" in p:
            kw["num_startup_periods"] = p["num_startup_periods"]
        return SingleFrequencyProfile(**kw)
    if p["kind"] == "pulse":
        return GaussianPulseProfile(
            spectral_width=fdtdx.WaveCharacter(wavelength=p["width_wavelength"]) if "width_wavelength" in p else fdtdx.WaveCharacter(frequency=p["width_frequency"]),
            center_wave=fdtdx.WaveCharacter(wavelength=p["center_wavelength"]),
        )
    raise env.HarnessError(f"unknown profile {p}")


def _box_constraints(obj, box, spec=None):
    """box = [[x0,x1],[y0,y1],[z0,z1]] in grid cells -> constraints fixing both sides on every axis.

    Uniform grids use index-space constraints; explicit non-uniform grids (where the library rejects
    index-space placement) use the exact physical edge coordinates instead.
    """
    import fdtdx

    cons = []
    g = None if spec is None else spec["grid"]
    for a in range(3):
        if g is not None and g["kind"] == "rect":
            e = g["edges"][a]
            cons.append(
                fdtdx.RealCoordinateConstraint(object=obj.name, axes=(a, a), sides=("-", "+"), coordinates=(float(e[int(box[a][0])]), float(e[int(box[a][1])])))
            )
        else:
            cons.append(obj.set_grid_coordinates(axes=(a, a), sides=("-", "+"), coordinates=(int(box[a][0]), int(box[a][1]))))
    return cons


def build_source(s: dict, dtype, dt: float):
    import fdtdx

    wc = fdtdx.WaveCharacter(wavelength=s["wavelength"], phase_shift=s.get("phase", 0.0))
    common = dict(
        name=s["name"],
        wave_character=wc,
        switch=build_switch(s.get("switch"), dt),
        static_amplitude_factor=s.get("factor", 1.0),
        temporal_profile=build_profile(s.get("profile")),
    )
    k = s["kind"]
    if k == "dipole":
        return fdtdx.PointDipoleSource(
            polarization=s["polarization"],
            source_type=s.get("source_type", "electric"),
            amplitude=s.get("amplitude", 1.0),
            azimuth_angle=s.get("azimuth", 0.0),
            elevation_angle=s.get("elevation", 0.0),
            **common,
        )
    if k in ("uniform_plane", "gaussian_plane"):
        kw = dict(direction=s["direction"], azimuth_angle=s.get("azimuth", 0.0), elevation_angle=s.get("elevation", 0.0))
        if "e_pol" in s:
            kw["fixed_E_polarization_vector"] = tuple(s["e_pol"])
        if "h_pol" in s:
            kw["fixed_H_polarization_vector"] = tuple(s["h_pol"])
        if "normalize_by_energy" in s:
            kw["normalize_by_energy"] = s["normalize_by_energy"]
        if k == "uniform_plane":
            return fdtdx.UniformPlaneSource(amplitude=s.get("amplitude", 1.0), **kw, **common)
        return fdtdx.GaussianPlaneSource(radius=s["radius"], std=s.get("std", 1 / 3), **kw, **common)
    if k == "hard_plane":  # not exported at top level; reachable as fdtdx.objects.sources.source.HardConstantAmplitudePlanceSource
        from fdtdx.objects.sources.source import HardConstantAmplitudePlanceSource

        kw = dict(direction=s["direction"], amplitude=s.get("amplitude", 1.0))
        if "e_pol" in s:
            kw["fixed_E_polarization_vector"] = tuple(s["e_pol"])
        return HardConstantAmplitudePlanceSource(**kw, **common)
    if k == "tfsf_region":
        kw = dict(direction=s["direction"], propagation_axis=int(s["axis"]), periodic_axes=tuple(s.get("periodic_axes", ())), amplitude=s.get("amplitude", 1.0))
        if "e_pol" in s:
            kw["fixed_E_polarization_vector"] = tuple(s["e_pol"])
        return fdtdx.TFSFPlaneSourceRegion(**kw, **common)
    if k == "mode":
        kw = dict(direction=s["direction"], mode_index=int(s.get("mode_index", 0)))
        if s.get("filter_pol"):
            kw["filter_pol"] = s["filter_pol"]
        return fdtdx.ModePlaneSource(**kw, **common)
    raise env.HarnessError(f"unknown source kind {k}")


def build_detector(d: dict, dtype, complex_fields: bool, dt: float):
    import fdtdx
    import jax.numpy as jnp

    ddt = dtype
    common = dict(
        name=d["name"],
        dtype=ddt,
        exact_interpolation=d.get("exact", True),
        inverse=d.get("inverse", False),
        switch=build_switch(d.get("switch"), dt),
        plot=False,
    )
    k = d["kind"]
    if d.get("real_place"):
        common["partial_real_position"] = tuple(float(x) for x in d["real_place"]["center"])
        common["partial_real_shape"] = tuple(float(x) for x in d["real_place"]["size"])
    if d.get("complex_dtype"):  # time-domain record of complex-valued fields (Bloch / forced complex storage)
        common["dtype"] = jnp.complex128 if dtype == jnp.float64 else jnp.complex64
    if k == "field":
        return fdtdx.FieldDetector(reduce_volume=d.get("reduce", False), components=tuple(d.get("components", ("Ex", "Ey", "Ez", "Hx", "Hy", "Hz"))), **common)
    if k == "energy":
        kw = {}
        for key in ("as_slices", "x_slice", "y_slice", "z_slice", "aggregate"):
            if key in d:
                kw[key] = d[key]
        return fdtdx.EnergyDetector(reduce_volume=d.get("reduce", False), **kw, **common)
    if k == "poynting":
        kw = {}
        for key in ("keep_all_components", "fixed_propagation_axis"):
            if key in d:
                kw[key] = d[key]
        return fdtdx.PoyntingFluxDetector(direction=d["direction"], reduce_volume=d.get("reduce", True), **kw, **common)
    if k == "closed":
        kw = {}
        if "axes" in d:
            kw["axes"] = tuple(d["axes"])
        return fdtdx.ClosedSurfacePoyntingFluxDetector(orientation=d.get("orientation", "outward"), **kw, **common)
    if k in ("phasor_poynting", "closed_phasor"):
        kw = {}
        for key in ("scaling_mode", "dft_subsample"):
            if key in d:
                kw[key] = d[key]
        if d.get("window"):
            kw["apodization"] = build_window(d["window"], dt)
        common["dtype"] = jnp.complex128 if dtype == jnp.float64 else jnp.complex64
        common.pop("plot")
        wcs = tuple(fdtdx.WaveCharacter(wavelength=w) for w in d["wavelengths"])
        if k == "phasor_poynting":
            for key in ("keep_all_components", "fixed_propagation_axis"):
                if key in d:
                    kw[key] = d[key]
            return fdtdx.PhasorPoyntingFluxDetector(wave_characters=wcs, direction=d["direction"], **kw, **common)
        if "axes" in d:
            kw["axes"] = tuple(d["axes"])
        return fdtdx.ClosedSurfacePhasorPoyntingFluxDetector(wave_characters=wcs, orientation=d.get("orientation", "outward"), **kw, **common)
    if k == "projection_angle":  # near-to-far-field projection detector (box volume or single plane): a PhasorDetector subclass
        kw = {}
        for key in ("scaling_mode", "dft_subsample", "direction"):
            if key in d:
                kw[key] = d[key]
        common["dtype"] = jnp.complex128 if dtype == jnp.float64 else jnp.complex64
        for key in ("plot", "exact_interpolation"):
            common.pop(key, None)
        return fdtdx.FieldProjectionAngleDetector(wave_characters=tuple(fdtdx.WaveCharacter(wavelength=w) for w in d["wavelengths"]), **kw, **common)
    if k == "phasor":
        kw = {}
        for key in ("scaling_mode", "dft_subsample"):
            if key in d:
                kw[key] = d[key]
        if d.get("window"):
            kw["apodization"] = build_window(d["window"], dt)
        common["dtype"] = jnp.complex128 if dtype == jnp.float64 else jnp.complex64
        return fdtdx.PhasorDetector(
            wave_characters=tuple(fdtdx.WaveCharacter(wavelength=w) for w in d["wavelengths"]),
            reduce_volume=d.get("reduce", False),
            components=tuple(d.get("components", ("Ex", "Ey", "Ez", "Hx", "Hy", "Hz"))),
            **kw,
            **common,
        )
    raise env.HarnessError(f"unknown detector kind {k}")


def build_window(w: dict, dt: float):
    import fdtdx

    kw = {(k[:-3] if k.endswith("_dt") else k): (v * dt if k.endswith("_dt") else v) for k, v in w.items() if k != "kind"}
    if w["kind"] == "gaussian":
        return fdtdx.GaussianWindow(**kw)
    if w["kind"] == "tukey":
        return fdtdx.TukeyWindow(**kw)
    raise env.HarnessError(f"unknown window {w}")


def build_boundaries(spec: dict, volume):
    import fdtdx

    objs, cons = [], []
    faces = spec.get("faces", {})
    kvec = tuple(spec.get("bloch_vector", (0.0, 0.0, 0.0)))
    if spec.get("faces_via_config"):
        # the documented user path: BoundaryConfig -> boundary_objects_from_config (object names are the library's)
        from fdtdx.objects.boundaries.initialization import BoundaryConfig, boundary_objects_from_config

        # "bloch_vector_config": the vector as a user would hand it to BoundaryConfig - it may carry components along axes
        # that are plain periodic (or walls), which must be ignored there
        kw = {"bloch_vector": tuple(spec.get("bloch_vector_config", kvec))} if any(f.get("kind") == "bloch" for f in faces.values()) else {}
        for face in FACES:
            f = faces.get(face, {"kind": "none"})
            if f["kind"] == "none":
                raise env.HarnessError("faces_via_config needs a boundary on every face")
            sfx = face.replace("_", "")
            kw[f"boundary_type_{sfx}"] = f["kind"]
            if f["kind"] == "pml":
                kw[f"thickness_grid_{sfx}"] = int(f["thickness"])
                for k in ("kappa_start", "kappa_end", "kappa_order", "alpha_start", "alpha_end", "alpha_order", "sigma_start", "sigma_end", "sigma_order"):
                    if k in f:
                        kw[f"{k}_{sfx}"] = f[k]
        bdict, cons = boundary_objects_from_config(BoundaryConfig(**kw), volume)
        # give the objects the harness's own names (bnd_<face>), in the objects and in the constraints that refer to them
        rename = {b.name: f"bnd_{face}" for face, b in bdict.items()}
        objs = [b.aset("name", rename[b.name]) for b in bdict.values()]
        import dataclasses as _dc

        cons = [_dc.replace(c, object=rename.get(c.object, c.object)) for c in cons]  # constraints are frozen dataclasses
        return objs, list(cons)
    for face in FACES:
        f = faces.get(face, {"kind": "none"})
        kind = f["kind"]
        if kind == "none":
            continue
        axis, direction = face_axis_dir(face)
        gs = [None, None, None]
        gs[axis] = int(f.get("thickness", 1)) if kind == "pml" else 1
        name = f"bnd_{face}"
        if kind == "pml":
            kw = {k: f[k] for k in ("kappa_start", "kappa_end", "kappa_order", "alpha_start", "alpha_end", "alpha_order", "sigma_start", "sigma_end", "sigma_order") if k in f}
            b = fdtdx.PerfectlyMatchedLayer(name=name, axis=axis, direction=direction, partial_grid_shape=tuple(gs), **kw)
        elif kind == "periodic":
            b = fdtdx.BlochBoundary(name=name, axis=axis, direction=direction, partial_grid_shape=tuple(gs), bloch_vector=(0.0, 0.0, 0.0))
        elif kind == "bloch":
            b = fdtdx.BlochBoundary(name=name, axis=axis, direction=direction, partial_grid_shape=tuple(gs), bloch_vector=kvec)
        elif kind == "pec":
            b = fdtdx.PerfectElectricConductor(name=name, axis=axis, direction=direction, partial_grid_shape=tuple(gs))
        elif kind == "pmc":
            b = fdtdx.PerfectMagneticConductor(name=name, axis=axis, direction=direction, partial_grid_shape=tuple(gs))
        else:
            raise env.HarnessError(f"unknown boundary kind {kind}")
        other = [0, 1, 2]
        other.remove(axis)
        di = -1 if direction == "-" else 1
        cons.append(b.place_relative_to(volume, axes=(axis, other[0], other[1]), own_positions=(di, 0, 0), other_positions=(di, 0, 0)))
        objs.append(b)
    return objs, cons


def pml_slices(spec: dict) -> list[tuple[slice, slice, slice]]:
    out = []
    shape = spec["shape"]
    for face, f in spec.get("faces", {}).items():
        if f["kind"] != "pml":
            continue
        axis, direction = face_axis_dir(face)
        t = int(f["thickness"])
        sl = [slice(None)] * 3
        sl[axis] = slice(0, t) if direction == "-" else slice(shape[axis] - t, shape[axis])
        out.append(tuple(sl))
    return out


def interior_mask(spec: dict) -> np.ndarray:
    m = np.ones(tuple(spec["shape"]), dtype=bool)
    for sl in pml_slices(spec):
        m[sl] = False
    return m


# ---------------------------------------------------------------- materials


def random_spd(r: np.random.Generator, n: int, lo: float, hi: float) -> np.ndarray:
    """n random symmetric positive definite 3x3 with eigenvalues in [lo,hi]; returns (n,3,3)."""
    A = r.normal(size=(n, 3, 3))
    Q, _ = np.linalg.qr(A)
    lam = r.uniform(lo, hi, size=(n, 3))
    return np.einsum("nij,nj,nkj->nik", Q, lam, Q)


def random_material_arrays(spec_m: dict, shape, np_dtype) -> dict:
    """Random per-cell arrays for 'random' material mode; returns dict of numpy arrays (or None).

    Keys: inv_eps (c,nx,ny,nz) c in 1/3/9, inv_mu (same or None), sigma_e, sigma_h (or None).
    `const_axis` keeps the arrays constant along one axis (for symmetry properties).
    """
    r = np_rng(spec_m["seed"])
    n = int(np.prod(shape))
    const_axis = spec_m.get("const_axis")
    gen_shape = list(shape)
    if const_axis is not None:
        for ca in (const_axis if isinstance(const_axis, (list, tuple)) else [const_axis]):
            gen_shape[int(ca)] = 1
    gn = int(np.prod(gen_shape))

    def expand(a):  # (c, *gen_shape) -> (c,*shape)
        return np.broadcast_to(a, (a.shape[0], *shape)).copy()

    def tensor_field(tier, lo, hi):
        if tier == "iso":
            return expand(1.0 / r.uniform(lo, hi, size=(1, *gen_shape)))
        if tier == "diag":
            return expand(1.0 / r.uniform(lo, hi, size=(3, *gen_shape)))
        if tier == "full":
            M = random_spd(r, gn, lo, hi)
            Mi = np.linalg.inv(M)
            return expand(Mi.reshape(*gen_shape, 9).transpose(3, 0, 1, 2))
        raise env.HarnessError(tier)

    out = {"inv_eps": tensor_field(spec_m.get("eps_tier", "iso"), 1.0, spec_m.get("eps_max", 6.0)).astype(np_dtype)}
    mt = spec_m.get("mu_tier")
    out["inv_mu"] = tensor_field(mt, 1.0, spec_m.get("mu_max", 3.0)).astype(np_dtype) if mt else None

    def cond(tier, mx):
        if not tier:
            return None
        c = 1 if tier == "iso" else 3
        a = r.uniform(0.0, mx, size=(c, *gen_shape))
        a = a * (r.uniform(size=(1, *gen_shape)) < 0.6)  # some cells lossless
        return expand(a).astype(np_dtype)

    out["sigma_e"] = cond(spec_m.get("sigma_e_tier"), spec_m.get("sigma_e_max", 0.3))
    out["sigma_h"] = cond(spec_m.get("sigma_h_tier"), spec_m.get("sigma_h_max", 0.3))
    return out


def _tier_material(eps_tier, mu_tier, se_tier, sh_tier):
    """A background material that forces the array component counts of the requested tiers."""
    def val(tier, base, zero=False):
        b = 0.0 if zero else base
        if tier is None:
            return None
        if tier == "iso":
            return base
        if tier == "diag":
            return (base, base * 1.25, base * 1.5)
        return ((base * 1.3, 0.1, 0.05), (0.1, base * 1.2, 0.02), (0.05, 0.02, base * 1.1))

    m = {"permittivity": val(eps_tier or "iso", 2.0)}
    if mu_tier:
        m["permeability"] = val(mu_tier, 1.5)
    if se_tier:
        m["electric_conductivity"] = val(se_tier, 0.1)
    if sh_tier:
        m["magnetic_conductivity"] = val(sh_tier, 0.1)
    return m


# ---------------------------------------------------------------- build


def build_scene(spec: dict, apply: bool = True, material_arrays: dict | None = None) -> Scene:
    """Place the scene with the real library. Raises whatever the library raises.

    material_arrays: optional dict as returned by `random_material_arrays` (numpy); when given the
    placed material arrays are overwritten with it (shapes must match the placed tiers) and every
    source / detector is re-applied against the final arrays (see fdsim.replica).
    """
    env.bootstrap()
    import fdtdx
    import jax
    import jax.numpy as jnp

    spec = copy.deepcopy(spec)
    config = build_config(spec)
    dt = grid_spec_dt(spec)
    dtype = _dtype(spec)
    np_dtype = np.float64 if spec.get("dtype", "float64") == "float64" else np.float32
    mats = spec.get("materials", {"mode": "objects", "objects": []})

    vol_mat = None
    if mats["mode"] == "random":
        vol_mat = _tier_material(mats.get("eps_tier"), mats.get("mu_tier"), mats.get("sigma_e_tier"), mats.get("sigma_h_tier"))
    elif mats.get("background"):
        vol_mat = mats["background"]
    vkw = {}
    if vol_mat is not None:
        vkw["material"] = build_material(vol_mat)
    if spec.get("volume_real") and spec["grid"]["kind"] in ("uniform", "quasi", "rect_uniform"):
        # the volume given by its physical size (policy grids then derive the cell count themselves)
        g = spec["grid"]
        sp = [g["spacing"]] * 3 if "spacing" in g else list(g["d"])
        volume = fdtdx.SimulationVolume(name="volume", partial_real_shape=tuple(float(n * s_) for n, s_ in zip(spec["shape"], sp)), **vkw)
    else:
        volume = fdtdx.SimulationVolume(name="volume", partial_grid_shape=tuple(spec["shape"]), **vkw)
    objects, constraints = [volume], []
    bo, bc = build_boundaries(spec, volume)
    objects += bo
    constraints += bc

    if mats["mode"] == "objects":
        for o in mats.get("objects", []):
            obj = build_static_object(o)
            objects.append(obj)
            constraints += _box_constraints(obj, o["box"], spec)

    for s in spec.get("sources", []):
        src = build_source(s, dtype, dt)
        objects.append(src)
        constraints += _box_constraints(src, s["box"], spec)
    complex_fields = bool(spec.get("complex")) or any(
        f["kind"] == "bloch" and spec.get("bloch_vector", (0, 0, 0))[face_axis_dir(face)[0]] != 0.0 for face, f in spec.get("faces", {}).items()
    )
    for d in spec.get("detectors", []):
        det = build_detector(d, dtype, complex_fields, dt)
        objects.append(det)
        if d.get("real_place"):
            continue  # placed through partial_real_position / partial_real_shape (relative to the domain centre), no constraint
        constraints += _box_constraints(det, d["box"], spec)
    for dv in spec.get("devices", []):
        from fdsim import devices as _dev

        obj = _dev.build_device(dv)
        objects.append(obj)
        constraints += _box_constraints(obj, dv["box"], spec)

    order = spec.get("object_order")
    if order is not None:
        byname = {o.name: o for o in objects}
        objects = [byname[n] for n in order]

    key = jax.random.PRNGKey(int(spec.get("key", 0)))
    try:
        oc, arrays, params, config, info = fdtdx.place_objects(object_list=objects, config=config, constraints=constraints, key=key)
    except Exception as e:
        # the external mode solver (tidy3d -> scipy ARPACK) occasionally fails to converge on (nearly) degenerate modes of a
        # small or homogeneous cross-section; that is no property of fdtdx: the scene counts as rejected
        if "ARPACK" in str(e) or "ArpackError" in repr(e):
            raise NotImplementedError("scene rejected: external mode solver (ARPACK) did not converge") from None
        if "the TFSF box supports only" in str(e) or "not yet supported" in str(e):
            # documented refusal of a construct the library does not support (e.g. a TFSF box next to a phase-shifted Bloch axis)
            raise NotImplementedError("scene rejected by the library: " + str(e).strip().splitlines()[-1][:160]) from None
        raise

    if mats["mode"] == "random":
        # config.symmetry keeps the upper half of every symmetric axis: random arrays are drawn for the reduced domain
        red_shape = tuple(n // 2 if sy != 0 else n for n, sy in zip(spec["shape"], spec.get("symmetry", (0, 0, 0))))
        ra = random_material_arrays(mats, red_shape, np_dtype)
        arrays = overwrite_materials(arrays, ra)
    if material_arrays is not None:
        arrays = overwrite_materials(arrays, material_arrays)

    scene = Scene(spec=spec, objects=oc, arrays=arrays, config=config, params=params, info=info, key=key)
    if apply:
        try:
            scene = apply_scene(scene, reapply=material_arrays is not None)
        except Exception as e:
            if "ARPACK" in str(e) or "ArpackError" in repr(e):
                raise NotImplementedError("scene rejected: external mode solver (ARPACK) did not converge") from None
            raise
    return scene


def overwrite_materials(arrays, ra: dict):
    import jax.numpy as jnp

    def chk(cur, new, name):
        if new is None:
            return cur
        if not hasattr(cur, "shape") or tuple(cur.shape) != tuple(new.shape):
            raise env.HarnessError(f"material overwrite {name}: placed {getattr(cur, 'shape', None)} vs generated {new.shape}")
        return jnp.asarray(new, dtype=cur.dtype)

    arrays = arrays.aset("inv_permittivities", chk(arrays.inv_permittivities, ra["inv_eps"], "inv_eps"))
    if ra.get("inv_mu") is not None:
        arrays = arrays.aset("inv_permeabilities", chk(arrays.inv_permeabilities, ra["inv_mu"], "inv_mu"))
    if ra.get("sigma_e") is not None:
        arrays = arrays.aset("electric_conductivity", chk(arrays.electric_conductivity, ra["sigma_e"], "sigma_e"))
    if ra.get("sigma_h") is not None:
        arrays = arrays.aset("magnetic_conductivity", chk(arrays.magnetic_conductivity, ra["sigma_h"], "sigma_h"))
    return arrays


def apply_scene(scene: Scene, reapply: bool = False) -> Scene:
    """apply_params, then re-apply every source/detector against the final arrays."""
    import fdtdx
    import jax

    arrays, oc, _ = fdtdx.apply_params(scene.arrays, scene.objects, scene.params, scene.key)
    mats = scene.spec.get("materials", {})
    if mats.get("mode") == "random" or reapply:
        oc = reapply_objects(oc, arrays, scene.key)
    scene.arrays, scene.objects = arrays, oc
    return scene


def reapply_objects(oc, arrays, key):
    """Re-run `apply` for every non-material object against the given arrays (public per-object API)."""
    import fdtdx
    import jax
    from fdtdx.objects.sources.source import Source
    from fdtdx.objects.detectors.detector import Detector

    new = []
    for o in oc.object_list:
        if isinstance(o, (Source, Detector)):
            key, sub = jax.random.split(key)
            o = o.apply(
                key=sub,
                inv_permittivities=arrays.inv_permittivities,
                inv_permeabilities=arrays.inv_permeabilities,
                dispersive_c1=arrays.dispersive_c1,
                dispersive_c2=arrays.dispersive_c2,
                dispersive_c3=arrays.dispersive_c3,
                dispersive_c4=arrays.dispersive_c4,
                electric_conductivity=arrays.electric_conductivity,
            )
        new.append(o)
    return fdtdx.ObjectContainer(object_list=new, volume_idx=oc.volume_idx)


def build_static_object(o: dict):
    import fdtdx

    k = o.get("kind", "box")
    if k == "box":
        return fdtdx.UniformMaterialObject(name=o["name"], material=build_material(o.get("material")), placement_order=int(o.get("order", 0)))
    if k == "sphere":
        kw = {}
        if o.get("radii"):  # optional per-axis radii (ellipsoid); the bounding box is derived from them
            kw = {"radius_x": float(o["radii"][0]), "radius_y": float(o["radii"][1]), "radius_z": float(o["radii"][2])}
        return fdtdx.Sphere(name=o["name"], materials={"m": build_material(o.get("material"))}, material_name="m", radius=o["radius"], placement_order=int(o.get("order", 0)), **kw)
    if k == "cylinder":
        return fdtdx.Cylinder(name=o["name"], materials={"m": build_material(o.get("material"))}, material_name="m", radius=o["radius"], axis=o["axis"], placement_order=int(o.get("order", 0)))
    raise env.HarnessError(f"unknown static object {k}")


# ---------------------------------------------------------------- initial fields


def random_fields(scene: Scene, seed: int, scale: float = 1.0, enforce_walls: bool = True, interior_only: bool = False):
    """Random E,H (complex if the scene's fields are complex), projected onto the wall conditions."""
    import jax.numpy as jnp

    r = np_rng(seed)
    shp = scene.arrays.fields.E.shape
    cplx = jnp.iscomplexobj(scene.arrays.fields.E)

    def rnd():
        a = r.normal(size=shp) * scale
        if cplx:
            a = a + 1j * r.normal(size=shp) * scale
        return a

    E, H = rnd(), rnd()
    if interior_only:
        m = interior_mask(scene.spec)
        E = E * m[None]
        H = H * m[None]
    E = jnp.asarray(E, dtype=scene.arrays.fields.E.dtype)
    H = jnp.asarray(H, dtype=scene.arrays.fields.H.dtype)
    if enforce_walls:
        for b in scene.objects.boundary_objects:
            E = b.apply_post_E_update(E)
            H = b.apply_post_H_update(H)
    return E, H
