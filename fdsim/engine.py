"""Seeded search engine: generate -> execute (worker pool) -> confirm by replay -> minimise ->
known-finding triage -> evidence.  The parent process never imports jax.

Exit codes: 0 property held on everything explored (KNOWN-FINDING lines allowed),
            1 at least one VIOLATION line printed,
            2 HARNESS-ERROR (never counts as a pass and never as a violation).
"""
from __future__ import annotations

import concurrent.futures as cf
import faulthandler
import hashlib
import importlib
import json
import multiprocessing as mp
import os
import subprocess
import sys
import time
import traceback

import numpy as np

ROOT = os.path.dirname(os.path.dirname(os.path.abspath(__file__)))
# overridable so that runs against a scratch tree (seeded changes, mutants) never touch the committed evidence
EVIDENCE_DIR = os.environ.get("VERIF_EVIDENCE_DIR") or os.path.join(ROOT, "evidence")
REPLAY_DIR = os.environ.get("VERIF_REPLAY_DIR") or os.path.join(ROOT, "replays")
KNOWN_FILE = os.path.join(ROOT, "known_findings.json")
PY = sys.executable


def derive_seed(verif_seed: int, prop: str, run_index: int) -> int:
    h = hashlib.blake2b(f"{verif_seed}|{prop}|{run_index}".encode(), digest_size=8).digest()
    return int.from_bytes(h, "big")


def rng_for(verif_seed: int, prop: str, run_index: int) -> np.random.Generator:
    return np.random.Generator(np.random.PCG64(derive_seed(verif_seed, prop, run_index)))


def load_check(prop: str):
    return importlib.import_module(f"checks.{prop.lower()}")


# ------------------------------------------------------------------ worker side


def _winit(threads: int, x64: bool = True):
    os.environ["PYTHONHASHSEED"] = os.environ.get("PYTHONHASHSEED", "0")
    faulthandler.enable()
    if threads == 1 and not os.environ.get("VERIF_NO_PIN"):
        # pin each worker to one CPU *before* jax starts its thread pools (they size to the affinity mask)
        try:
            ident = mp.current_process()._identity
            cpus = sorted(os.sched_getaffinity(0))
            if ident:
                os.sched_setaffinity(0, {cpus[(ident[0] - 1) % len(cpus)]})
        except Exception:
            pass
    sys.path.insert(0, ROOT)
    from fdsim import env

    env.bootstrap(threads=threads, x64=x64)


def _wrun(prop: str, index: int, spec: dict, timeout_s: float) -> dict:
    """Execute one run in a worker. Never raises."""
    from fdsim import env

    t0 = time.time()
    faulthandler.dump_traceback_later(timeout_s, exit=True)
    try:
        mod = load_check(prop)
        res = mod.execute(spec)
        res.setdefault("violations", [])
        res.setdefault("stats", {})
        res.setdefault("nontrivial", True)
        res.setdefault("signature", "")
        res.setdefault("digest", "")
    except env.HarnessError as e:
        res = {"harness_error": f"{e}", "trace": traceback.format_exc()}
    except Exception as e:  # unexpected exception: harness error by policy (DESIGN 4)
        res = {"harness_error": f"{type(e).__name__}: {e}", "trace": traceback.format_exc()}
    finally:
        faulthandler.cancel_dump_traceback_later()
    res["index"] = index
    res["wall_s"] = time.time() - t0
    return res


# ------------------------------------------------------------------ pool helper


class Pool:
    def __init__(self, workers: int, threads: int = 1, x64: bool = True):
        self.workers = workers
        ctx = mp.get_context("spawn")
        self.ex = cf.ProcessPoolExecutor(max_workers=workers, mp_context=ctx, initializer=_winit, initargs=(threads, x64))

    def map_runs(self, prop: str, items: list[tuple[int, dict]], timeout_s: float) -> list[dict]:
        futs = {self.ex.submit(_wrun, prop, i, spec, timeout_s): i for i, spec in items}
        out = {}
        try:
            for f in cf.as_completed(futs, timeout=timeout_s * max(1, (len(items) + self.workers - 1) // self.workers) + 120):
                i = futs[f]
                try:
                    out[i] = f.result()
                except Exception as e:  # worker died
                    out[i] = {"index": i, "harness_error": f"worker died: {type(e).__name__}: {e}"}
        except cf.TimeoutError:
            for f, i in futs.items():
                if i not in out:
                    out[i] = {"index": i, "harness_error": "timeout waiting for worker"}
        return [out[i] for i, _ in items]

    def close(self):
        self.ex.shutdown(wait=False, cancel_futures=True)


# ------------------------------------------------------------------ known findings


def load_known(prop: str) -> list[dict]:
    if not os.path.exists(KNOWN_FILE):
        return []
    with open(KNOWN_FILE) as f:
        data = json.load(f)
    return [e for e in data.get("findings", []) if e["property"] == prop]


def classify(mod, spec: dict, violation: dict, known: list[dict]) -> str | None:
    """Name of the *known* (not fixed) finding this violation matches, else None."""
    preds = getattr(mod, "KNOWN_PREDICATES", {})
    for e in known:
        if e.get("status") != "known":
            continue
        fn = preds.get(e["predicate"])
        if fn is None:
            continue
        try:
            if fn(spec, violation):
                return e["id"]
        except Exception:
            continue
    return None


# ------------------------------------------------------------------ replay files


def write_replay(prop, seed, index, spec, violation, digest, minimised_from=None, extra=None) -> str:
    os.makedirs(REPLAY_DIR, exist_ok=True)
    path = os.path.join(REPLAY_DIR, f"{prop}-{seed}-{index}.json")
    doc = {
        "property": prop,
        "verif_seed": seed,
        "run_index": index,
        "spec": spec,
        "violation": violation,
        "digest": digest,
        "minimised_from": minimised_from,
    }
    if extra:
        doc.update(extra)
    with open(path, "w") as f:
        json.dump(doc, f, indent=1, sort_keys=True, default=_json_default)
    return path


def _json_default(o):
    if isinstance(o, (np.integer,)):
        return int(o)
    if isinstance(o, (np.floating,)):
        return float(o)
    if isinstance(o, np.ndarray):
        return o.tolist()
    if isinstance(o, (np.bool_,)):
        return bool(o)
    return str(o)


def jsonable(x):
    return json.loads(json.dumps(x, default=_json_default))


def replay_in_fresh_process(prop: str, spec: dict, timeout_s: float = 900) -> dict:
    """Run one spec in a brand-new interpreter (different PYTHONHASHSEED) and return its result."""
    env = dict(os.environ)
    env["PYTHONHASHSEED"] = "4242"
    p = subprocess.run(
        [PY, os.path.join(ROOT, "run_check.py"), prop, "--exec-spec", "-"],
        input=json.dumps(spec, default=_json_default),
        capture_output=True,
        text=True,
        timeout=timeout_s,
        env=env,
        cwd=ROOT,
    )
    for line in p.stdout.splitlines()[::-1]:
        if line.startswith("RESULT "):
            return json.loads(line[7:])
    return {"harness_error": f"replay subprocess produced no RESULT (rc={p.returncode}): {p.stderr[-2000:]}"}


def same_class(v_ref: dict, violations: list[dict]) -> dict | None:
    for v in violations:
        if v["monitor"] == v_ref["monitor"]:
            return v
    return None


# ------------------------------------------------------------------ minimisation


def minimise(mod, prop, pool: Pool, spec, violation, known, budget: int, timeout_s: float):
    """Greedy one-step delta debugging on the JSON spec; keeps monitor and known-class fixed."""
    if not hasattr(mod, "shrink"):
        return spec, violation, 0
    ref_class = classify(mod, spec, violation, known)
    attempts = 0
    improved = True
    while improved and attempts < budget:
        improved = False
        cands = [c for c in mod.shrink(spec)]
        if not cands:
            break
        cands = cands[: max(1, min(len(cands), budget - attempts))]
        results = pool.map_runs(prop, list(enumerate(cands)), timeout_s)
        attempts += len(cands)
        for c, r in zip(cands, results):
            if "harness_error" in r or r.get("rejected"):
                continue
            v = same_class(violation, r.get("violations", []))
            if v is None:
                continue
            if classify(mod, c, v, known) != ref_class:
                continue
            spec, violation, improved = c, v, True
            break
    return spec, violation, attempts


# ------------------------------------------------------------------ main entry


def run_check(prop: str, tier: str, seed: int, workers: int | None = None, runs: int | None = None) -> int:
    t_start = time.time()
    mod = load_check(prop)
    n_runs = runs if runs is not None else mod.RUNS[tier]
    workers = workers or min(int(os.environ.get("VERIF_WORKERS", "8")), os.cpu_count() or 1, max(1, n_runs))
    threads = getattr(mod, "THREADS", 1)
    timeout_s = float(getattr(mod, "RUN_TIMEOUT_S", 600)) * float(os.environ.get("VERIF_TIMEOUT_SCALE", "2"))  # generous: a timeout is never a verdict
    print(f"[{prop}] tier={tier} VERIF_SEED={seed} runs={n_runs} workers={workers}", flush=True)

    # private, fresh XLA compile-cache directory for this run (workers, determinism probe and replays inherit it); removed at the end
    own_cache = None
    if "VERIF_XLA_CACHE_DIR" not in os.environ:
        import tempfile

        own_cache = tempfile.mkdtemp(prefix=f"fdsim_xla_{prop}_")
        os.environ["VERIF_XLA_CACHE_DIR"] = own_cache

    specs = []
    for i in range(n_runs):
        rng = rng_for(seed, prop, i)
        specs.append(jsonable(mod.generate(rng, tier, i)))

    # determinism probe in a fresh interpreter with another hash seed, started first so it overlaps
    probe_idx = list(range(min(2, n_runs)))
    probe = None
    if not os.environ.get("VERIF_NO_PROBE"):
        env = dict(os.environ)
        env["PYTHONHASHSEED"] = "977"
        probe = subprocess.Popen(
            [PY, os.path.join(ROOT, "run_check.py"), prop, "--exec-specs", "-"],
            stdin=subprocess.PIPE,
            stdout=subprocess.PIPE,
            stderr=subprocess.PIPE,
            text=True,
            env=env,
            cwd=ROOT,
        )
        probe.stdin.write(json.dumps([specs[i] for i in probe_idx]))
        probe.stdin.close()
        probe.stdin = None

    pool = Pool(workers, threads, bool(getattr(mod, "X64", True)))
    harness_errors = []
    try:
        results = pool.map_runs(prop, list(enumerate(specs)), timeout_s)
        if os.environ.get("VERIF_DEBUG"):
            print("run walls:", [round(r.get("wall_s", -1), 1) for r in results], "t=", round(time.time() - t_start, 1), flush=True)
        known = load_known(prop)
        violations_out = []  # (line, is_known)
        classes = {}
        for r in results:
            if "harness_error" in r:
                harness_errors.append((r["index"], r["harness_error"], r.get("trace", "")))
                continue
            for v in r.get("violations", []):
                kid = classify(mod, specs[r["index"]], v, known)
                # unknown violations: one class per monitor; known findings: one class per finding id
                ck = (v["monitor"], None) if kid is None else ("*", kid)
                if any(m[0] == r["index"] for m in classes.get(ck, [])):
                    continue  # one member per run and class
                classes.setdefault(ck, []).append((r["index"], v))

        shrink_budget = int(getattr(mod, "SHRINK_BUDGET", {"quick": 24, "thorough": 80}).get(tier, 24))
        if os.environ.get("VERIF_NO_SHRINK"):  # detection-only runs against seeded changes (tools/try_seeded.sh)
            shrink_budget = 0
        n_viol, n_known = 0, 0
        for (monitor, kid), members in sorted(classes.items(), key=lambda kv: (kv[0][0], str(kv[0][1]))):
            idx, v = members[0]
            spec0 = specs[idx]
            monitor = v["monitor"]
            # confirm in a fresh process first
            rr = replay_in_fresh_process(prop, spec0, timeout_s=timeout_s + 120)
            if "harness_error" in rr:
                harness_errors.append((idx, "replay: " + rr["harness_error"], ""))
                continue
            v2 = same_class(v, rr.get("violations", []))
            if v2 is None:
                harness_errors.append((idx, f"non-reproducible candidate monitor={monitor}", ""))
                continue
            if kid is not None and tier == "quick":
                mspec, mv, attempts = spec0, v, 0  # known finding: replay-confirmed above, minimised only in the thorough tier
            else:
                mspec, mv, attempts = minimise(mod, prop, pool, spec0, v, known, shrink_budget, timeout_s)
            if mspec is not spec0:
                rr2 = replay_in_fresh_process(prop, mspec, timeout_s=timeout_s + 120)
                mv2 = same_class(mv, rr2.get("violations", [])) if "harness_error" not in rr2 else None
                if mv2 is None:  # minimised form did not reproduce: fall back to the confirmed original
                    mspec, mv = spec0, v
            path = write_replay(
                prop, seed, idx, mspec, mv, rr.get("digest", ""),
                minimised_from=None if mspec is spec0 else {"spec": spec0, "attempts": attempts},
                extra={"also_seen_in_runs": [m[0] for m in members[1:]][:50], "known_finding": kid},
            )
            if kid is not None:
                desc = next(e["description"] for e in known if e["id"] == kid)
                print(f"KNOWN-FINDING: property={prop} {kid}: {desc} (monitor={monitor}, {len(members)} run(s), replay={path})", flush=True)
                n_known += len(members)
            else:
                print(f"VIOLATION property={prop} replay={path}", flush=True)
                print(f"  monitor={monitor} detail={json.dumps(mv, default=_json_default)[:600]}", flush=True)
                n_viol += len(members)

        # determinism probe verdict
        probe_status = "skipped"
        if probe is not None:
            try:
                out, err = probe.communicate(timeout=timeout_s * 2 + 300)
                got = None
                for line in out.splitlines()[::-1]:
                    if line.startswith("RESULTS "):
                        got = json.loads(line[8:])
                        break
                if got is None:
                    harness_errors.append((-1, f"determinism probe produced no output: {err[-1500:]}", ""))
                    probe_status = "failed"
                else:
                    probe_status = "identical"
                    for i, g in zip(probe_idx, got):
                        a = results[i]
                        if "harness_error" in a or "harness_error" in g:
                            continue
                        if a.get("digest") != g.get("digest"):
                            probe_status = "DIVERGED"
                            harness_errors.append((i, f"determinism probe diverged: {a.get('digest')} vs {g.get('digest')}", ""))
            except subprocess.TimeoutExpired:
                probe.kill()
                harness_errors.append((-1, "determinism probe timed out", ""))
                probe_status = "timeout"
    finally:
        pool.close()
        if own_cache:
            import shutil

            shutil.rmtree(own_cache, ignore_errors=True)
            os.environ.pop("VERIF_XLA_CACHE_DIR", None)

    wall = time.time() - t_start
    write_evidence(mod, prop, tier, seed, specs, results, n_viol, n_known, probe_status, harness_errors, wall, workers)

    for idx, msg, tr in harness_errors[:10]:
        print(f"HARNESS-ERROR property={prop} run={idx}: {msg}", flush=True)
        if tr:
            print(tr[-1500:], flush=True)
    if n_viol:
        return 1
    if harness_errors:
        return 2
    print(f"[{prop}] OK: {len(results)} runs, {n_known} matched known findings, wall {wall:.1f}s", flush=True)
    return 0


def write_evidence(mod, prop, tier, seed, specs, results, n_viol, n_known, probe_status, harness_errors, wall, workers):
    os.makedirs(EVIDENCE_DIR, exist_ok=True)
    ok = [r for r in results if "harness_error" not in r]
    sigs = set()
    for r in ok:
        if r.get("nontrivial") and not r.get("rejected"):
            sigs.add(r.get("signature", ""))
    agg: dict = {}
    for r in ok:
        for k, v in r.get("stats", {}).items():
            if isinstance(v, bool):
                agg[k] = agg.get(k, 0) + int(v)
            elif isinstance(v, (int, float)):
                agg[k] = agg.get(k, 0) + v
    steps = int(agg.get("sim_steps", 0))
    samples = []
    for i in (0, len(specs) // 2, len(specs) - 1):
        if 0 <= i < len(specs) and specs[i] not in samples:
            samples.append(specs[i])
    cov = {
        "evaluations": len(results),
        "distinct_nontrivial": len(sigs),
        "rule": getattr(mod, "RULE", ""),
        "samples": samples,
        "exhaustive": False,
        "exhaustive_inner": bool(getattr(mod, "EXHAUSTIVE_INNER", False)),
        "runs_per_hour": round(len(results) / max(wall, 1e-9) * 3600, 1),
        "seeds_per_hour": round(len(results) / max(wall, 1e-9) * 3600, 1),
        "simulated_steps": steps,
        "simulated_time_fs": float(agg.get("sim_time_fs", 0.0)),
        "fault_kinds_fired": {k[6:]: int(v) for k, v in sorted(agg.items()) if k.startswith("fault_")},
        "reach_probes": {k[6:]: int(v) for k, v in sorted(agg.items()) if k.startswith("probe_")},
        "other_counters": {k: (int(v) if float(v).is_integer() else float(v)) for k, v in sorted(agg.items()) if not k.startswith(("fault_", "probe_", "sim_"))},
        "rejected_scenes": sum(1 for r in ok if r.get("rejected")),
        "harness_errors": len(harness_errors),
        "known_finding_hits": n_known,
        "determinism_probe": probe_status,
        "workers": workers,
        "real_components": getattr(mod, "REAL", []),
        "stub_components": getattr(mod, "STUB", []),
        "worst_residuals": _worst(ok),
    }
    st_path = os.path.join(ROOT, "selftest", f"{prop}.json")
    if os.path.exists(st_path):
        try:
            with open(st_path) as f:
                cov["mutant_kill_table"] = json.load(f)
        except Exception:
            pass
    doc = {
        "property_id": prop,
        "tier": tier,
        "seed": int(seed),
        "level": getattr(mod, "LEVEL", "exploration"),
        "coverage": cov,
        "assumptions": getattr(mod, "ASSUMPTIONS", []),
        "wall_s": round(wall, 2),
        "violations": int(n_viol),
    }
    with open(os.path.join(EVIDENCE_DIR, f"{prop}.json"), "w") as f:
        json.dump(doc, f, indent=1, default=_json_default)


def _worst(ok):
    w: dict = {}
    for r in ok:
        for k, v in r.get("residuals", {}).items():
            if isinstance(v, (int, float)) and (k not in w or v > w[k]):
                w[k] = v
    return w
