"""C16 — detector reductions are consistent with their spatial records.

One run, groups of detectors sharing a region and a schedule; identities are evaluated on the
recorded histories at every recorded step: reduced field / phasor = volume-weighted mean, reduced
energy = volume-weighted sum, reduced Poynting = area-weighted sum, "-" negates "+", single component =
propagation component of the all-component output, closed surface = signed sum of its six faces,
inverse-time phasor update = minus the forward update on the same inputs.
"""
from __future__ import annotations

import numpy as np

from fdsim import specgen

PROPERTY = "C16"
LEVEL = "exploration"
RUNS = {"quick": 20, "thorough": 400}
RULE = (
    "seeded scenes (periodic/PEC/PMC/none/PML faces, uniform or non-uniform grid, random iso eps, random initial fields + dipole, T 3-6) "
    "with detector groups on seeded regions: {field, phasor, energy} x {spatial, reduced} on a box; Poynting {spatial, reduced +, reduced -, "
    "all-component spatial/reduced} on a plane; closed-surface {outward, inward} + six face planes on a box; forward/inverse phasor pair. "
    "Random shared schedule, component subsets, exact/raw. non-trivial = non-zero records compared; distinct = scene signature x group kinds"
)
REAL = ["place_objects", "forward", "FieldDetector", "PhasorDetector", "EnergyDetector", "PoyntingFluxDetector", "ClosedSurfacePoyntingFluxDetector", "Detector.update"]
STUB = []
ASSUMPTIONS = ["float64, identities to 1e-11 relative", "cell volumes / face areas re-derived from the grid edges in the spec"]
TECHNIQUE = "deterministic simulation: record-history cross-checks between co-scheduled detectors of one driver-stepped run"
LEVEL_TEXT = "Seeded exploration; every identity is evaluated at every recorded step of every group."
LEVEL_NOTE = "float64 CPU; grids <= 8^3, T <= 6"
TOL = 1e-11
# statement names the construct, so failing to even place it is a violation, not a harness error (DESIGN 4)
CONSTRUCT_EXCEPTIONS = ("all-component Poynting output",)


def _plane(rng, shape):
    ax = int(rng.integers(0, 3))
    box = specgen.rand_box(rng, shape, min_size=2)
    p = int(rng.integers(0, shape[ax]))
    box[ax] = [p, p + 1]
    return box, ax


def generate(rng, tier, index):
    T = int(rng.integers(3, 7))
    faces = specgen.rand_faces(rng, kinds_pair=("periodic",), kinds_single=("pec", "pmc", "none"), pml=(2, 2))
    shape = specgen.fit_shape(specgen.rand_shape(rng, 4, 8), faces)
    spec = {"shape": shape, "grid": specgen.rand_grid(rng, shape, 0.5), "steps": T, "faces": faces, "key": int(rng.integers(0, 2**31))}
    spec["materials"] = {"mode": "random", "seed": int(rng.integers(0, 2**31)), "eps_tier": "iso", "mu_tier": specgen.choice(rng, [None, "iso"])}
    if spec["materials"]["mu_tier"] is None:
        spec["materials"].pop("mu_tier")
    spec["sources"] = [specgen.rand_dipole(rng, "s0", shape, specgen.inner_region(shape, faces), T, allow_switch=False)]
    spec["init_seed"] = int(rng.integers(0, 2**31))
    sw = specgen.rand_switch(rng, T, p_default=0.5, need_active=True)
    exact = bool(rng.uniform() < 0.6)
    comps = specgen.rand_components(rng)
    wl = [float(rng.uniform(6, 14)) * specgen.SPACING for _ in range(int(rng.integers(1, 3)))]
    # half of the scenes: the phasor detectors of the volume group share a temporal apodization window
    win = None
    if rng.uniform() < 0.5:
        if rng.uniform() < 0.5:
            win = {"kind": "gaussian", "center_time_dt": float(rng.uniform(0.2, 0.8) * T), "sigma_time_dt": float(rng.uniform(0.3, 0.8) * T)}
        else:
            a0 = float(rng.uniform(0.0, 0.2) * T)
            win = {"kind": "tukey", "start_time_dt": a0, "end_time_dt": float(a0 + rng.uniform(0.7, 1.0) * T), "alpha": float(rng.uniform(0.1, 0.9))}
    dets, groups = [], []

    def add(d):
        d = dict(d)
        d["exact"] = exact
        if sw:
            d["switch"] = sw
        if win and d["kind"] == "phasor":
            d["window"] = win
        dets.append(d)

    box = specgen.rand_box(rng, shape, min_size=1)
    add({"kind": "field", "name": "f_sp", "box": box, "components": comps, "reduce": False})
    add({"kind": "field", "name": "f_red", "box": box, "components": comps, "reduce": True})
    add({"kind": "phasor", "name": "p_sp", "box": box, "components": comps, "reduce": False, "wavelengths": wl})
    add({"kind": "phasor", "name": "p_red", "box": box, "components": comps, "reduce": True, "wavelengths": wl})
    add({"kind": "phasor", "name": "p_inv", "box": box, "components": comps, "reduce": False, "wavelengths": wl, "inverse": True})
    add({"kind": "phasor", "name": "p_inv_red", "box": box, "components": comps, "reduce": True, "wavelengths": wl, "inverse": True})
    add({"kind": "energy", "name": "e_sp", "box": box, "reduce": False})
    add({"kind": "energy", "name": "e_red", "box": box, "reduce": True})
    groups.append("volume")
    pbox, pax = _plane(rng, shape)
    add({"kind": "poynting", "name": "s_sp", "box": pbox, "direction": "+", "reduce": False})
    add({"kind": "poynting", "name": "s_plus", "box": pbox, "direction": "+", "reduce": True})
    add({"kind": "poynting", "name": "s_minus", "box": pbox, "direction": "-", "reduce": True})
    add({"kind": "poynting", "name": "s_minus_sp", "box": pbox, "direction": "-", "reduce": False})
    add({"kind": "poynting", "name": "s_all_minus_red", "box": pbox, "direction": "-", "reduce": True, "keep_all_components": True})
    add({"kind": "poynting", "name": "s_all_sp", "box": pbox, "direction": "+", "reduce": False, "keep_all_components": True})
    add({"kind": "poynting", "name": "s_all_red", "box": pbox, "direction": "+", "reduce": True, "keep_all_components": True})
    groups.append("plane")
    cbox = specgen.rand_box(rng, shape, min_size=2)
    add({"kind": "closed", "name": "c_out", "box": cbox, "orientation": "outward"})
    add({"kind": "closed", "name": "c_in", "box": cbox, "orientation": "inward"})
    for a in range(3):
        for side, lo in (("min", cbox[a][0]), ("max", cbox[a][1] - 1)):
            fb = [list(b) for b in cbox]
            fb[a] = [lo, lo + 1]
            add({"kind": "poynting", "name": f"c_face_{a}_{side}", "box": fb, "direction": "+", "reduce": True, "fixed_propagation_axis": a})
    groups.append("closed")
    # a second closed surface whose active axes are not a prefix of (x, y, z): explicit subset, or a box one cell thin along x or y
    c2 = specgen.rand_box(rng, shape, min_size=2)
    axes2 = None
    if rng.uniform() < 0.5:
        axes2 = [list(x) for x in ([1, 2], [0, 2], [2], [1], [0, 1])][int(rng.integers(0, 5))]
    else:
        thin = int(rng.integers(0, 2))
        p0 = int(rng.integers(0, shape[thin]))
        c2[thin] = [p0, p0 + 1]
    add({"kind": "closed", "name": "c2_out", "box": c2, "orientation": "outward", **({"axes": axes2} if axes2 else {})})
    act2 = axes2 if axes2 else [a for a in range(3) if c2[a][1] - c2[a][0] > 1]
    for a in act2:
        for side, lo in (("min", c2[a][0]), ("max", c2[a][1] - 1)):
            fb = [list(b) for b in c2]
            fb[a] = [lo, lo + 1]
            add({"kind": "poynting", "name": f"c2_face_{a}_{side}", "box": fb, "direction": "+", "reduce": True, "fixed_propagation_axis": a})
    spec["closed2_axes"] = act2
    spec["detectors"] = dets
    spec["plane_axis"] = pax
    spec["groups"] = groups
    return spec


def shrink(spec):
    import copy

    out = []
    if spec["grid"]["kind"] == "rect":
        s = copy.deepcopy(spec)
        s["grid"] = {"kind": "uniform", "spacing": specgen.SPACING}
        out.append(s)
    if spec["steps"] > 1:
        s = copy.deepcopy(spec)
        s["steps"] -= 1
        out.append(s)
    for d in spec["detectors"]:
        if d.get("switch"):
            s = copy.deepcopy(spec)
            for dd in s["detectors"]:
                dd.pop("switch", None)
            out.append(s)
            break
    for f in specgen.FACES:
        if spec["faces"][f]["kind"] in ("pec", "pmc", "pml") and not any(spec["faces"][g]["kind"] == "pml" for g in specgen.FACES):
            s = copy.deepcopy(spec)
            s["faces"][f] = {"kind": "none"}
            out.append(s)
    return out


def execute(spec):
    import jax.numpy as jnp
    from fdsim import scene as sc, driver as dr, oracles as orc

    viol, stats, resid = [], {"sim_steps": 0, "sim_time_fs": 0.0}, {}
    try:
        scn = sc.build_scene(spec)
    except ValueError as e:
        # the statement names the all-component Poynting output: not being able to place it is a violation
        if "s_all" in str(e) or "same shape" in str(e) or "stack" in str(e):
            names = [d["name"] for d in spec["detectors"] if d.get("keep_all_components")]
            return {
                "violations": [{"monitor": "all_component_poynting_cannot_be_placed", "detectors": names, "error": str(e)[:160]}],
                "stats": stats, "residuals": {}, "nontrivial": True, "signature": specgen.scene_signature(spec, "place_fail"), "digest": "place_fail:" + type(e).__name__,
            }
        raise
    T = scn.T
    E0, H0 = sc.random_fields(scn, spec["init_seed"], scale=1.0)
    st = dr.Stepper(scn)
    state = st.fwd(st.state0(scn.arrays.aset("fields->E", E0).aset("fields->H", H0)), T)
    stats["sim_steps"], stats["sim_time_fs"] = T, T * scn.dt * 1e15
    D = dr.detectors_np(state)
    widths = orc.widths_from_spec(spec)
    by = {d["name"]: d for d in spec["detectors"]}

    def vol(box):
        return widths[0][box[0][0]:box[0][1]][:, None, None] * widths[1][box[1][0]:box[1][1]][None, :, None] * widths[2][box[2][0]:box[2][1]][None, None, :]

    def area(box, a):
        w = [widths[i][box[i][0]:box[i][1]] for i in range(3)]
        w[a] = np.ones_like(w[a])
        return w[0][:, None, None] * w[1][None, :, None] * w[2][None, None, :]

    def check(name, got, want, scale=None):
        s = scale if scale is not None else max(float(np.max(np.abs(want))) if np.size(want) else 0.0, float(np.max(np.abs(got))) if np.size(got) else 0.0)
        d = dr.rel_diff(np.asarray(want), np.asarray(got), s if s > 0 else None)
        resid[name] = max(resid.get(name, 0.0), d if np.isfinite(d) else 1e300)
        stats["identities_checked"] = stats.get("identities_checked", 0) + 1
        if not (d <= TOL):
            viol.append({"monitor": name, "metric": "rel_diff", "value": d, "tolerance": TOL})
        return s

    nontrivial = False
    # --- volume group
    box = by["f_sp"]["box"]
    V = vol(box)
    fsp = D["f_sp/fields"]  # (n, c, x, y, z)
    if fsp.shape[0]:
        nontrivial = bool(np.max(np.abs(fsp)) > 0)
        check("reduced_field_vs_spatial", D["f_red/fields"], np.sum(fsp * V[None, None], axis=(2, 3, 4)) / V.sum(), float(np.max(np.abs(fsp))))
        esp = D["e_sp/energy"]
        check("reduced_energy_vs_spatial", D["e_red/energy"][:, 0], np.sum(esp * V[None], axis=(1, 2, 3)), float(np.sum(np.abs(esp) * V[None], axis=(1, 2, 3)).max()))
    psp = D["p_sp/phasor"]  # (1, nf, c, x, y, z)
    check("reduced_phasor_vs_spatial", D["p_red/phasor"], np.sum(psp * V[None, None, None], axis=(3, 4, 5)) / V.sum(), float(np.max(np.abs(psp))) if psp.size else None)
    # inverse phasor update = - forward update on identical inputs (public Detector.update)
    fwd_det, inv_det = scn.objects["p_sp"], scn.objects["p_inv"]
    gs = fwd_det.grid_slice
    on = np.array(fwd_det._is_on_at_time_step_arr)
    arr = state[1]
    for t in [int(x) for x in np.nonzero(on)[0][:2]]:
        zero = {"phasor": jnp.zeros_like(arr.detector_states["p_sp"]["phasor"])}
        kw = dict(time_step=jnp.asarray(t), E=arr.fields.E[:, *gs], H=arr.fields.H[:, *gs], inv_permittivity=arr.inv_permittivities[:, *gs], inv_permeability=1.0)
        a = np.array(fwd_det.update(state=zero, **kw)["phasor"])
        b = np.array(inv_det.update(state=zero, **kw)["phasor"])
        check("inverse_phasor_subtracts_forward", b, -a)
        # the same for the volume-reduced pair (forward reduced vs inverse reduced on identical inputs)
        zr = {"phasor": jnp.zeros_like(arr.detector_states["p_red"]["phasor"])}
        ar = np.array(scn.objects["p_red"].update(state=zr, **kw)["phasor"])
        br = np.array(scn.objects["p_inv_red"].update(state=zr, **kw)["phasor"])
        check("inverse_reduced_phasor_subtracts_forward", br, -ar, float(np.max(np.abs(a))) if a.size else None)
    # accumulated over the run: the reduced inverse record is the volume mean of the spatial inverse record
    pinv = D["p_inv/phasor"]
    check("reduced_inverse_phasor_vs_spatial", D["p_inv_red/phasor"], np.sum(pinv * V[None, None, None], axis=(3, 4, 5)) / V.sum(), float(np.max(np.abs(pinv))) if pinv.size else None)
    # --- plane group
    pax = spec["plane_axis"]
    pb = by["s_sp"]["box"]
    A = area(pb, pax)
    ssp = D["s_sp/poynting_flux"]  # (n, x, y, z)
    if ssp.shape[0]:
        sc_ = float(np.sum(np.abs(ssp) * A[None], axis=(1, 2, 3)).max())
        check("reduced_poynting_vs_spatial", D["s_plus/poynting_flux"][:, 0], np.sum(ssp * A[None], axis=(1, 2, 3)), sc_)
        check("minus_negates_plus", D["s_minus/poynting_flux"], -D["s_plus/poynting_flux"], sc_)
        check("minus_negates_plus_spatial", D["s_minus_sp/poynting_flux"], -ssp, float(np.max(np.abs(ssp))))
        check("reduced_minus_vs_spatial_minus", D["s_minus/poynting_flux"][:, 0], np.sum(D["s_minus_sp/poynting_flux"] * A[None], axis=(1, 2, 3)), sc_)
        allsp = D["s_all_sp/poynting_flux"]  # (n, 3, x, y, z)
        check("single_component_vs_all_components", ssp, allsp[:, pax], float(np.max(np.abs(allsp))))
        allred = D["s_all_red/poynting_flux"]  # (n, 3)
        want = np.stack([np.sum(allsp[:, a] * area(pb, a)[None], axis=(1, 2, 3)) for a in range(3)], axis=1)
        check("reduced_all_components_vs_spatial", allred, want, float(np.max(np.abs(want))))
        check("single_reduced_vs_all_reduced", D["s_plus/poynting_flux"][:, 0], allred[:, pax], sc_)
        check("minus_negates_plus_all_components", D["s_all_minus_red/poynting_flux"], -allred, float(np.max(np.abs(want))))
    # --- closed surface group
    cout = D["c_out/poynting_flux"][:, 0]
    if cout.shape[0]:
        cb = by["c_out"]["box"]
        active = [a for a in range(3) if cb[a][1] - cb[a][0] > 1]
        faces_sum = sum(D[f"c_face_{a}_max/poynting_flux"][:, 0] - D[f"c_face_{a}_min/poynting_flux"][:, 0] for a in active)
        sc_ = float(sum(np.abs(D[f"c_face_{a}_{s}/poynting_flux"][:, 0]) for a in active for s in ("min", "max")).max())
        check("closed_surface_vs_faces", cout, faces_sum, sc_)
        check("inward_negates_outward", D["c_in/poynting_flux"][:, 0], -cout, sc_)
    if "c2_out/poynting_flux" in D and D["c2_out/poynting_flux"].shape[0] and spec.get("closed2_axes"):
        act2 = spec["closed2_axes"]
        c2out = D["c2_out/poynting_flux"][:, 0]
        fs2 = sum(D[f"c2_face_{a}_max/poynting_flux"][:, 0] - D[f"c2_face_{a}_min/poynting_flux"][:, 0] for a in act2)
        sc2 = float(sum(np.abs(D[f"c2_face_{a}_{s_}/poynting_flux"][:, 0]) for a in act2 for s_ in ("min", "max")).max())
        check("closed_surface_subset_of_axes_vs_faces", c2out, fs2, sc2)
        stats["probe_closed_axes_" + "".join(str(a) for a in act2)] = 1
    stats["probe_nonuniform"] = int(spec["grid"]["kind"] == "rect")
    stats["probe_windowed_phasors"] = int(any(d.get("window") for d in spec["detectors"]))
    stats["probe_exact"] = int(bool(spec["detectors"][0]["exact"]))
    sig = specgen.scene_signature({**spec, "detectors": spec["detectors"][:3]}, spec["groups"], spec["plane_axis"])
    digest = dr.digest_arrays(D) + ":" + ",".join(f"{k}={dr.sig3(v)}" for k, v in sorted(resid.items())) + f":v{len(viol)}"
    return {"violations": viol, "stats": stats, "residuals": resid, "nontrivial": nontrivial, "signature": sig, "digest": digest}
