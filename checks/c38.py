"""C38 — equivalent grid descriptions give identical simulations.

Replicas: the same scene on `UniformGrid(s)`, on an explicit `RectilinearGrid` whose edges are
equally spaced by s, and on `QuasiUniformGrid(s, s, s)`.  All three are stepped in lockstep; after
every step fields, PML auxiliaries and all detector records must agree (1e-12).  One replica is
also pushed through the library's own loop and must end in the stepped state.
"""
from __future__ import annotations

import copy

import numpy as np

from fdsim import replica as rp
from fdsim import specgen

PROPERTY = "C38"
LEVEL = "exploration"
RUNS = {"quick": 16, "thorough": 300}
TOL = 1e-12
GRIDS = ("uniform", "rect_uniform", "quasi")
RULE = (
    "seeded random scenes with even cell counts 4-6 per axis (up to 10 with PML) (QuasiUniformGrid requires even counts), spacing s drawn from 20-80 nm "
    "(multiples of 0.1 nm, sometimes with a sub-1e-14 m remainder), per-face boundaries from periodic / Bloch pairs / PEC / PMC / none / PML 2-3, "
    "per-cell random material tensors (iso / diagonal / full, optional conductivities), 1-2 sources (dipoles, at most one uniform/Gaussian plane "
    "source), 1-3 detectors of all four kinds with and without co-location, random initial field in half of the runs; each scene is built on the "
    "three grid descriptions. non-trivial = fields non-zero at the end; distinct = boundary tuple x material tiers x source/detector kinds x "
    "initial-field flag x loop kind"
)
REAL = ["UniformGrid", "RectilinearGrid", "QuasiUniformGrid.resolve", "place_objects", "apply_params", "forward", "run_fdtd", "custom_fdtd_forward"]
STUB = ["per-cell material arrays are written into the placed ArrayContainer", "tqdm disabled"]
ASSUMPTIONS = [
    "float64; agreement criterion 1e-12 relative to the per-array max (arrays below 1e-3 of the field maximum, and field / Poynting records below the corresponding scale, are judged on that absolute scale)",
    "even cell counts on every axis (documented requirement of QuasiUniformGrid.resolve; odd counts are a documented rejection)",
    "the explicit grid's edges are k*s - n*s/2 (one rounding away from the library's own lower + s*k)",
    "plane sources sit on exactly isotropic planes",
]
TECHNIQUE = "deterministic simulation: three grid-description replicas stepped in lockstep by the driver, one replica also through the real loop with a seeded cut"
LEVEL_TEXT = "Seeded search over scenes; every scene runs on the three grid descriptions and is compared after every step. Evidence, not proof."
LEVEL_NOTE = "float64, XLA CPU single thread; the oracle is the same code reached through another grid constructor"


def generate(rng, tier, index):
    units = int(rng.integers(200, 801)) * 10_000  # multiples of 0.1 nm in units of 1e-14 m
    s = (units + (0.25 if rng.uniform() < 0.25 else 0.0)) * 1e-14
    spec = rp.rand_scene(rng, T=(5, 10), shape=(4, 6), even=True, pml=(2, 3), bloch_p=0.2, p_nonuniform=0.0, n_sources=(1, 2), max_plane=1, spacing=float(s))
    T = spec["steps"]
    spec["init_seed"] = int(rng.integers(0, 2**31)) if rng.uniform() < 0.5 else None
    spec["loop"] = {"replica": int(rng.integers(0, 3)), "cut": int(rng.integers(1, T)) if rng.uniform() < 0.7 else None}
    # the three descriptions also differ by a translation (uniform policy centred on 0, explicit edges starting at 0, quasi-uniform
    # policy centred on a random point); one raw field detector is placed by its physical position *relative to the domain
    # centre* and its physical size, and in 60% of the scenes the volume itself is given by its physical size
    shape = spec["shape"]
    spec["quasi_center"] = [float(rng.uniform(-3, 3) * s * n) for n in shape]
    spec["volume_real"] = bool(rng.uniform() < 0.6)
    box = specgen.rand_box(rng, shape, min_size=1, max_size=3)
    spec["detectors"].append({"kind": "field", "name": "dreal", "box": box, "exact": False, "reduce": False, "components": specgen.rand_components(rng),
                              "real_place": {"center": [((b[0] + b[1]) / 2.0 - n / 2.0) * s for b, n in zip(box, shape)], "size": [(b[1] - b[0]) * s for b in box]}})
    return spec


def shrink(spec):
    out = []
    for s in rp.shrinks(spec, min_sources=0):
        if s["grid"]["kind"] == "uniform":
            out.append(s)
    return out


def grid_variant(spec, kind):
    s = copy.deepcopy(spec)
    sp = spec["grid"]["spacing"]
    s["grid"] = {"kind": "uniform", "spacing": sp} if kind == "uniform" else {"kind": "rect_uniform", "spacing": sp} if kind == "rect_uniform" else {"kind": "quasi", "d": [sp, sp, sp]}
    if kind == "rect_uniform":
        s["grid"]["center"] = [n * sp / 2.0 for n in spec["shape"]]  # edges start at 0
    elif kind == "quasi":
        s["grid"]["center"] = list(spec.get("quasi_center", (0.0, 0.0, 0.0)))
    return s


def execute(spec):
    rp.setup()
    from fdsim import driver as dr

    ra = rp.base_arrays(spec)
    scenes, errors = [], {}
    for g in GRIDS:
        try:
            scenes.append(rp.build(grid_variant(spec, g), ra))
        except (ValueError, NotImplementedError) as e:
            errors[g] = e
    if errors and len(errors) < len(GRIDS):
        # the same scene is accepted under one grid description and refused under another: the descriptions are not equivalent
        mon = rp.Monitors()
        mon.violations.append({"monitor": "scene_refused_under_one_grid_description", "step": 0, "metric": "placement outcome per description", "value": {g: ("ok" if g not in errors else str(errors[g])[:160]) for g in GRIDS}, "tolerance": "same outcome"})
        return rp.finish(mon, {"sim_steps": 0, "sim_time_fs": 0.0}, True, specgen.scene_signature(spec, "refused"), {"E": np.zeros(1)})
    if errors:
        return rp.rejected(next(iter(errors.values())))
    shapes = [tuple(s.shape) for s in scenes]
    if any(sh != tuple(spec["shape"]) for sh in shapes):  # a description that resolves to another cell count is not "the same simulation"
        mon = rp.Monitors()
        mon.violations.append({"monitor": "resolved_cell_count", "step": 0, "metric": "shape", "value": [list(x) for x in shapes], "tolerance": list(spec["shape"])})
        return rp.finish(mon, {"sim_steps": 0, "sim_time_fs": 0.0}, True, specgen.scene_signature(spec, "shape"), {"E": np.zeros(1)})
    T = scenes[0].T
    if any(s.T != T for s in scenes):
        raise rp.env.HarnessError(f"replicas disagree on the number of steps: {[s.T for s in scenes]}")
    mon = rp.Monitors()
    stats = {"sim_steps": 0, "sim_time_fs": 0.0, **rp.common_probes(spec)}
    stats["probe_library_flags_nonuniform"] = int(any(s.config.has_nonuniform_grid for s in scenes))
    stats["probe_ragged_spacing"] = int(round(spec["grid"]["spacing"] * 1e14) != spec["grid"]["spacing"] * 1e14)
    for d_ in spec["detectors"]:
        if d_.get("real_place"):
            got = [[list(x) for x in s.objects[d_["name"]].grid_slice_tuple] for s in scenes]
            if any(g != [list(b) for b in d_["box"]] for g in got):
                mon.violations.append({"monitor": "object_placed_by_physical_position_on_other_cells", "step": 0, "metric": "grid slices per grid description", "value": got, "tolerance": d_["box"], "descriptions": list(GRIDS)})
            stats["probe_real_placed_detector"] = 1
    stats["probe_volume_by_physical_size"] = int(bool(spec.get("volume_real")))
    dts = [s.dt for s in scenes]
    mon.check("time_step_duration", 0, max(abs(d - dts[0]) for d in dts) / dts[0], TOL)

    arrays = [s.arrays for s in scenes]
    stats["probe_complex"] = int(np.iscomplexobj(np.array(arrays[0].fields.E)))
    steppers = [dr.Stepper(s) for s in scenes]
    if spec.get("init_seed") is not None:
        E0, H0, stats["init_scale"], n = rp.balanced_init(scenes[0], steppers[0], spec["init_seed"])
        rp.count_steps(stats, n, scenes[0].dt)
        arrays = [rp.set_fields(s, E0, H0) for s in scenes]
    states = [st.state0(a) for st, a in zip(steppers, arrays)]
    f0, g_run = None, 0.0
    for t in range(T):
        states = [st.fwd(s) for st, s in zip(steppers, states)]
        rp.count_steps(stats, 3, scenes[0].dt)
        f0 = dr.fields_np(states[0])
        r0 = dr.detectors_np(states[0])
        g = rp.field_scale(f0)
        g_run = max(g_run, g)
        for k in (1, 2):
            mon.dicts("fields_vs_uniform", t, f0, dr.fields_np(states[k]), TOL, floors=rp.FLOOR * g, replica=GRIDS[k])
            mon.dicts("records_vs_uniform", t, r0, dr.detectors_np(states[k]), TOL, floors=rp.record_floors(spec, g_run, r0), replica=GRIDS[k])
    nontrivial = bool(np.max(np.abs(f0["E"])) > 0 or np.max(np.abs(f0["H"])) > 0)

    lp = spec.get("loop") or {}
    k = int(lp.get("replica", 0))
    fired = rp.loop_check(mon, stats, scenes[k], arrays[k], states[k], lp, spec.get("init_seed") is None, TOL, GRIDS[k])
    sig = specgen.scene_signature(spec, spec.get("init_seed") is not None, sorted(fired))
    return rp.finish(mon, stats, nontrivial, sig, f0)
