#!/usr/bin/env python
"""Generator robustness: for every check, run generate() for many VERIF_SEED values (no jax, no execution).
A generator that raises for some seed would make the check exit non-zero on an unchanged tree."""
import json, os, sys, traceback
ROOT = os.path.dirname(os.path.dirname(os.path.abspath(__file__)))
sys.path.insert(0, ROOT)
from fdsim import engine
props = sys.argv[2:] or [c["property_id"] for c in json.load(open(os.path.join(ROOT, "MANIFEST.json")))["checks"]]
nseeds = int(sys.argv[1]) if len(sys.argv) > 1 else 50
bad = 0
for p in props:
    mod = engine.load_check(p)
    n = mod.RUNS["quick"]
    fails = []
    for seed in range(nseeds):
        for i in range(n):
            try:
                engine.jsonable(mod.generate(engine.rng_for(seed, p, i), "quick", i))
            except Exception as e:
                fails.append((seed, i, f"{type(e).__name__}: {e}", traceback.format_exc().strip().splitlines()[-3]))
    print(p, "generated", nseeds * n, "fails", len(fails), fails[:2])
    bad += len(fails)
sys.exit(1 if bad else 0)
