"""C42 — results do not depend on the number of devices (multi-party: N emulated host devices).

For each seeded scene one child process per device count (XLA host-platform device emulation) places
and runs it through the real loop and returns fields, PML state and detector records; the parent
compares them.  The 4-device run is executed twice to establish reproducibility, because XLA's
inter-device scheduling is not under the simulator's control.
"""
from __future__ import annotations

import json
import os
import subprocess
import sys
import tempfile

import numpy as np

from fdsim import specgen

PROPERTY = "C42"
LEVEL = "exploration"
RUNS = {"quick": 4, "thorough": 60}
RUN_TIMEOUT_S = 1500
RULE = (
    "seeded scenes whose x size is a multiple of 4 (fields are sharded along x), all boundary kinds incl. PML, uniform/non-uniform grid, "
    "iso/diag materials with optional conductivity, 1-2 sources, 1-3 detectors of all kinds, T 6-14; device counts {1, 2, 4} (+ a repeat of 4). "
    "non-trivial = non-zero final fields and the arrays really are split into N shards; distinct = scene signature"
)
REAL = ["place_objects (sharded array creation)", "run_fdtd on N devices (XLA SPMD partitioning, halo exchange)", "all sources/detectors/boundaries"]
STUB = ["devices = XLA emulated host devices (--xla_force_host_platform_device_count), not GPUs"]
ASSUMPTIONS = ["float64, 1e-12 relative (reductions may differ in the last bits between partitionings)", "inter-device scheduling inside XLA is pinned by single-thread flags and checked by a repeat run, not explored"]
TECHNIQUE = "deterministic simulation: replica agreement across emulated device counts (child process per count), repeat run for reproducibility"
LEVEL_TEXT = "Seeded exploration over scenes; fields, PML state and detector outputs compared between 1, 2 and 4 devices."
LEVEL_NOTE = "CPU host-device emulation only; no real accelerator"
ROOT = os.path.dirname(os.path.dirname(os.path.abspath(__file__)))


def _wall_on_sharded_axis_with_partial_plane_source(spec, violation):
    """Known finding: a PEC/PMC wall on a face of the *sharded* axis (x) together with a plane-type source whose box does not span
    the whole x extent - with more than one device the fields differ from the single-device run, starting at the shard
    boundaries (x = N/n, 2N/n, ...).  Either ingredient alone is device-count independent (wall + dipole, wall + full-span plane
    source, partial plane source without a wall on x, walls on y/z)."""
    if violation.get("monitor") != "device_count_changes_result":
        return False
    faces = spec.get("faces", {})
    wall_x = any(faces.get(f, {}).get("kind") in ("pec", "pmc") for f in ("min_x", "max_x"))
    partial = any(s.get("kind") in ("uniform_plane", "gaussian_plane", "mode", "tfsf_region") and list(s["box"][0]) != [0, spec["shape"][0]] for s in spec.get("sources", []))
    return wall_x and partial


KNOWN_PREDICATES = {"wall_on_sharded_axis_with_partial_plane_source": _wall_on_sharded_axis_with_partial_plane_source}


def _scene(rng):
    return specgen.rand_scene(rng, T=(6, 14), shape=(6, 12), pml=(2, 3), p_nonuniform=0.3, tiers=("iso", "diag"), sigma_e=True)


def generate(rng, tier, index):
    spec = _scene(rng)
    # x size multiple of 4: rebuild dependent pieces by regenerating until it fits
    for _ in range(200):
        if spec["shape"][0] % 4 == 0:
            break
        spec = _scene(rng)
    # two scenes in three get placed static objects that exercise the *sharded* material writes of placement: two boxes of
    # identical size at different positions, and (uniform grids) an ellipsoid whose bounding box spans at least three of the
    # four x-shards - per-cell random arrays written by the harness would bypass that code
    if rng.uniform() < 0.67:
        shape = spec["shape"]

        def mat():
            m = {"permittivity": float(rng.uniform(1.5, 6.0))}
            if rng.uniform() < 0.4:
                m["electric_conductivity"] = float(rng.uniform(0.01, 0.3))
            return m

        size = [int(rng.integers(2, max(3, n // 2 + 1))) for n in shape]
        objs = []
        for i in range(2):
            lo = [int(rng.integers(0, n - sz + 1)) for n, sz in zip(shape, size)]
            objs.append({"kind": "box", "name": f"twin{i}", "box": [[a, a + sz] for a, sz in zip(lo, size)], "material": mat(), "order": i})
        if spec["grid"]["kind"] == "uniform":
            sizes = [shape[0] - int(rng.integers(0, 2)), int(rng.integers(2, shape[1] + 1)), int(rng.integers(2, shape[2] + 1))]
            lo = [int(rng.integers(0, n - sz + 1)) for n, sz in zip(shape, sizes)]
            radii = [0.49 * sz * specgen.SPACING for sz in sizes]
            objs.append({"kind": "sphere", "name": "blob", "box": [[a, a + sz] for a, sz in zip(lo, sizes)], "radius": radii[0], "radii": radii, "material": mat(), "order": 2})
        for i in range(int(rng.integers(0, 3))):
            objs.append({"kind": "box", "name": f"m{i}", "box": specgen.rand_box(rng, shape, min_size=1), "material": mat(), "order": 3 + i})
        spec["materials"] = {"mode": "objects", "objects": objs}
    spec["counts"] = [1, 2, 4, 4]
    return spec


def shrink(spec):
    return [s for s in specgen.generic_shrinks(spec) if s["shape"][0] % 4 == 0]


def execute(spec):
    from fdsim import driver as dr, env

    viol, stats, resid = [], {"sim_steps": 0, "sim_time_fs": 0.0}, {}
    outs = []
    with tempfile.TemporaryDirectory(prefix="c42_") as td:
        sp = os.path.join(td, "spec.json")
        json.dump({k: v for k, v in spec.items() if k != "counts"}, open(sp, "w"))
        for i, n in enumerate(spec["counts"]):
            out = os.path.join(td, f"out_{i}.npz")
            e = dict(os.environ)
            e.pop("XLA_FLAGS", None)
            p = subprocess.run([sys.executable, os.path.join(ROOT, "fdsim", "devchild.py"), sp, str(n), out], capture_output=True, text=True, timeout=900, env=e)
            if p.returncode != 0 or "CHILD-OK" not in p.stdout:
                err = (p.stderr or "")[-1500:]
                if "NotImplementedError" in err and "anisotropic" in err:
                    return {"rejected": True, "nontrivial": False, "stats": {"rejected": 1}, "digest": "rejected"}
                raise env.HarnessError(f"device child n={n} failed rc={p.returncode}: {err}")
            z = np.load(out)
            outs.append({k.replace("__", "/"): z[k] for k in z.files})
            stats["fault_devices_" + str(n)] = stats.get("fault_devices_" + str(n), 0) + 1
            stats["sim_steps"] += int(outs[-1]["meta/t"])
    ref = {k: v for k, v in outs[0].items() if not k.startswith("meta/")}
    nontrivial = bool(np.max(np.abs(ref["f/E"])) > 0)
    for n, o in zip(spec["counts"][1:], outs[1:]):
        if int(o["meta/nshards"]) != n:
            viol.append({"monitor": "arrays_not_sharded_as_requested", "devices": n, "shards": int(o["meta/nshards"])})
        d, k = dr.dict_rel_diff(ref, {k: v for k, v in o.items() if not k.startswith("meta/")})
        resid[f"vs_1_device_n{n}"] = max(resid.get(f"vs_1_device_n{n}", 0.0), d if np.isfinite(d) else 1e300)
        if int(o["meta/t"]) != int(outs[0]["meta/t"]):
            viol.append({"monitor": "step_count_differs", "devices": n})
        if not (d <= 1e-12):
            viol.append({"monitor": "device_count_changes_result", "devices": n, "metric": "rel_diff", "value": d, "tolerance": 1e-12, "key": k})
    # reproducibility of the multi-device run
    d, k = dr.dict_rel_diff({k: v for k, v in outs[-2].items() if not k.startswith("meta/")}, {k: v for k, v in outs[-1].items() if not k.startswith("meta/")})
    resid["repeat_4_devices"] = d
    stats["probe_bitwise_repeat"] = int(d == 0.0)
    stats["probe_wall_on_x_with_partial_plane_source"] = int(_wall_on_sharded_axis_with_partial_plane_source(spec, {"monitor": "device_count_changes_result"}))
    stats["probe_twin_boxes"] = int(any(o["name"] == "twin0" for o in spec["materials"].get("objects", [])))
    stats["probe_ellipsoid_over_three_shards"] = int(any(o["name"] == "blob" for o in spec["materials"].get("objects", [])))
    sig = specgen.scene_signature(spec)
    digest = dr.digest_arrays({k: np.round(v / (np.max(np.abs(v)) or 1.0), 9) for k, v in ref.items() if v.dtype.kind in "fc"}) + ":" + ",".join(f"{k}={dr.sig3(v)}" for k, v in sorted(resid.items())) + f":v{len(viol)}"
    return {"violations": viol, "stats": stats, "residuals": resid, "nontrivial": nontrivial, "signature": sig, "digest": digest}
