"""C04 — time-reversal gradients equal exact (checkpointed) autodiff gradients.

Schedule = gradient strategy and checkpoint placement: for one placed scene the gradient of a random
linear functional of all detector outputs w.r.t. the inverse permittivity (and permeability when it is
an array) is computed by `run_fdtd` under method="reversible" with k in {0, seeded, T-1} interior
checkpoints and under method="checkpointed"; they must agree on every cell outside the PML slabs.
Conductive scenes are compared only with a checkpoint at every step (k = T-1), as stated.
"""
from __future__ import annotations

import numpy as np

from fdsim import specgen

PROPERTY = "C04"
LEVEL = "exploration"
RUNS = {"quick": 12, "thorough": 300}
RUN_TIMEOUT_S = 900
RULE = (
    "seeded scenes: PML (default grading) on a random subset of faces (possibly none) mixed with periodic/PEC/PMC/none; uniform or non-"
    "uniform grid; random per-cell iso/diag eps (and mu), full 3x3 SPD tensors in half of the PML-free lossless scenes; lossless, or conductive with k=T-1 only; 1-2 sources from zero fields; 1-3 "
    "detectors (field exact/raw, energy, Poynting, phasor) with random schedules; loss = <w, outputs> with seeded random cotangents. "
    "non-trivial = reference gradient non-zero on interior cells; distinct = scene signature x strategy set"
)
REAL = ["place_objects", "run_fdtd", "reversible_fdtd custom VJP (segmented forward, reverse loop, interface replay)", "checkpointed_fdtd + equinox checkpointed while-loop", "jax.grad"]
STUB = ["tqdm disabled"]
ASSUMPTIONS = ["float64; tolerance 1e-7 of the max interior gradient, plus a round-off floor of 1e-10 x the natural gradient scale (max|w| x detector output at the run's peak field amplitude x records)", "trusted reference: equinox's checkpointed while loop + JAX autodiff"]
TECHNIQUE = "deterministic simulation: gradient-strategy / checkpoint-placement schedule, reversible VJP (log replay) vs exact autodiff on the same scene"
LEVEL_TEXT = "Seeded exploration over scenes x reversible checkpoint placements; gradients compared cell by cell outside the absorbing layers."
LEVEL_NOTE = "float64 CPU; <= 9^3 cells incl. PML, T <= 12; reference is the library's own exact-autodiff mode (named in DESIGN 4)"
TOL = 1e-7
ABS_FLOOR = 1e-10


def generate(rng, tier, index):
    lossy = bool(rng.uniform() < 0.25) or index % 4 == 1  # every fourth scene is conductive whatever was drawn
    spec = specgen.rand_scene(
        rng, T=(3, 12), shape=(4, 7), pml=(2, 4), p_nonuniform=0.3, tiers=("iso", "diag"), sigma_e=lossy, mu=True,
        source_kinds=("dipole", "dipole", "uniform_plane"), n_sources=(1, 2), n_detectors=(1, 3), switches=True,
    )
    m = spec["materials"]
    if m["mode"] != "random":
        m = {"mode": "random", "seed": int(rng.integers(0, 2**31)), "eps_tier": "iso"}
        spec["materials"] = m
    if not lossy:
        m.pop("sigma_e_tier", None)
    else:
        m["sigma_e_max"] = 2.5e-3
        if index % 4 == 1 and not m.get("sigma_e_tier"):
            m["sigma_e_tier"] = specgen.choice(rng, ["iso", "diag"])
        # conductive also means magnetically conductive (per-step loss factor up to ~0.2, as in C02); a checkpoint at every
        # step is taken for these scenes, as the statement says. Every eighth scene has a magnetically conductive medium.
        if index % 8 == 1 and m.get("mu_tier") not in ("iso", "diag"):
            m["mu_tier"] = specgen.choice(rng, ["iso", "diag"])
        if m.get("mu_tier") in ("iso", "diag") and (rng.uniform() < 0.6 or index % 8 == 1):
            m["sigma_h_tier"] = specgen.choice(rng, ["iso", "diag"])
            m["sigma_h_max"] = 300.0
    # fully anisotropic (9-component) lossless tensors: only in scenes without absorbing layers - next to a PML the reverse
    # pass is off for full tensors (known finding C03-full-tensor-next-to-pml), which would mask everything else
    force_full = index % 4 == 3 and not lossy  # every fourth scene: a PML-free full-tensor scene, whatever was drawn
    if force_full:
        for f_ in spec["faces"]:
            if spec["faces"][f_]["kind"] == "pml":
                spec["faces"][f_] = {"kind": specgen.choice(rng, ["pec", "pmc", "none"])}
    no_pml = not any(f["kind"] == "pml" for f in spec["faces"].values())
    if no_pml and not lossy and (force_full or rng.uniform() < 0.5):
        m["eps_tier"] = "full"
        if m.get("mu_tier") and rng.uniform() < 0.5:
            m["mu_tier"] = "full"
        region = [[0, n] for n in spec["shape"]]
        spec["sources"] = [s if s["kind"] == "dipole" else specgen.rand_dipole(rng, s["name"], spec["shape"], region, spec["steps"]) for s in spec["sources"]]
    # detectors read only cells outside the absorbing layers (co-location reaches one cell further): the
    # reverse pass reconstructs the interior only, a detector inside a layer is outside the statement
    inner = specgen.inner_region(spec["shape"], spec["faces"])
    inner = [[lo + (1 if spec["faces"][f"min_{ax}"]["kind"] == "pml" else 0), hi - (1 if spec["faces"][f"max_{ax}"]["kind"] == "pml" else 0)] for (lo, hi), ax in zip(inner, "xyz")]
    for a in range(3):
        if inner[a][1] - inner[a][0] < 1:
            inner[a] = specgen.inner_region(spec["shape"], spec["faces"])[a]
    spec["detectors"] = [specgen.rand_detector(rng, d["name"], spec["shape"], spec["steps"], inner=inner) for d in spec["detectors"]]
    for s in spec["sources"]:  # make sure something is injected early
        if s.get("switch") and rng.uniform() < 0.5:
            s.pop("switch")
    # three scenes in four keep one always-on source and one always-recording detector, so that the reference gradient
    # is not identically zero (a detector that only records before anything reaches it); the rest stay fully random
    if rng.uniform() < 0.75:
        spec["sources"][0].pop("switch", None)
        spec["detectors"][0].pop("switch", None)
    if m.get("sigma_h_tier"):
        # a source that injects H inside the magnetically lossy medium (source handling and the lossy H update do not commute)
        s0 = specgen.rand_dipole(rng, "smag", spec["shape"], specgen.inner_region(spec["shape"], spec["faces"]), spec["steps"], allow_switch=False)
        s0["source_type"] = "magnetic"
        spec["sources"].append(s0)
    T = spec["steps"]
    spec["gradient"] = {"method": "reversible", "recorder": []}
    is_lossy = bool(m.get("sigma_e_tier") or m.get("sigma_h_tier"))
    ks = [T - 1] if is_lossy else sorted({0, T - 1, int(rng.integers(0, T))})
    spec["ops"] = [{"op": "reversible", "k": k} for k in ks]
    spec["cot_seed"] = int(rng.integers(0, 2**31))
    spec["n_ckpt"] = int(rng.integers(1, T + 1))
    return spec


def shrink(spec):
    import copy

    out = [s for s in specgen.generic_shrinks(spec) if s.get("ops") and s.get("detectors") and s.get("sources")]
    if spec["steps"] > 2:
        s = copy.deepcopy(spec)
        s["steps"] -= 1
        for o in s["ops"]:
            o["k"] = min(o["k"], s["steps"] - 1)
        s["n_ckpt"] = min(s["n_ckpt"], s["steps"])
        out.append(s)
    return out


def _natural_gradient_scale(scn, w):
    """Size a gradient of <w, outputs> has when the fields at the detectors are as large as anywhere in the run.

    Round-off in the reconstructed fields is relative to the *largest* field of the run (reconstruction starts from
    the final state), so a reference gradient that is exactly zero (a detector that only records before anything
    reaches it) or far below this scale is matched by the time-reversal gradient only to eps64 times this scale,
    not relative to itself.  G = sum_d max|w_d| * max|out_d(random fields of amplitude Fmax)| * records_d; a
    relative change of inv_eps of O(1) changes the loss by O(loss).
    """
    import jax.numpy as jnp
    from fdsim import driver as dr, scene as sc

    st = dr.Stepper(scn, record_detectors=False)
    state = st.state0(scn.arrays.reset())
    fmax = 0.0
    for _ in range(scn.T):
        state = st.fwd(state, 1)
        fmax = max(fmax, float(jnp.max(jnp.abs(state[1].fields.E))), float(jnp.max(jnp.abs(state[1].fields.H))))
    if not (fmax > 0) or not np.isfinite(fmax):
        return 0.0
    arr = scn.arrays
    r = sc.np_rng(12345)
    G = 0.0
    for dn in sorted(arr.detector_states):
        det = scn.objects[dn]
        gs = det.grid_slice
        on = np.nonzero(np.array(det._is_on_at_time_step_arr))[0]
        if not len(on):
            continue
        shp = arr.fields.E[:, *gs].shape
        E = jnp.asarray(r.uniform(-fmax, fmax, size=shp))
        H = jnp.asarray(r.uniform(-fmax, fmax, size=shp))
        mu = arr.inv_permeabilities
        mu = mu[:, *gs] if hasattr(mu, "ndim") and mu.ndim > 0 else mu
        zero = {k: jnp.zeros_like(v) for k, v in arr.detector_states[dn].items()}
        out = det.update(time_step=jnp.asarray(int(on[0])), E=E, H=H, state=zero, inv_permittivity=arr.inv_permittivities[:, *gs], inv_permeability=mu)
        for k2, v in out.items():
            G += float(jnp.max(jnp.abs(w[(dn, k2)]))) * float(jnp.max(jnp.abs(v))) * len(on)
    return G


def execute(spec):
    import fdtdx
    import jax
    import jax.numpy as jnp
    from fdsim import scene as sc, driver as dr

    try:
        scn = sc.build_scene(spec)
    except (ValueError, NotImplementedError) as e:
        return {"rejected": True, "nontrivial": False, "stats": {"rejected": 1}, "digest": "rejected:" + type(e).__name__}
    T = scn.T
    arrays0, objs, key = scn.arrays, scn.objects, scn.key
    mask = sc.interior_mask(spec)[None]
    r = sc.np_rng(spec["cot_seed"])
    w = {}
    for dn in sorted(arrays0.detector_states):
        for k2 in sorted(arrays0.detector_states[dn]):
            a = arrays0.detector_states[dn][k2]
            v = r.normal(size=a.shape)
            if jnp.iscomplexobj(a):
                v = v + 1j * r.normal(size=a.shape)
            w[(dn, k2)] = jnp.asarray(v)
    mu_is_array = isinstance(arrays0.inv_permeabilities, jax.Array) and arrays0.inv_permeabilities.ndim > 0

    def make_loss(cfg):
        def loss(inv_eps, inv_mu):
            arr = arrays0.aset("inv_permittivities", inv_eps)
            if mu_is_array:
                arr = arr.aset("inv_permeabilities", inv_mu)
            _, out = fdtdx.run_fdtd(arr, objs, cfg, key, show_progress=False)
            tot = 0.0
            for (dn, k2), wv in w.items():
                tot = tot + jnp.sum(jnp.real(jnp.conj(wv) * out.detector_states[dn][k2]))
            return tot

        return jax.jit(jax.grad(loss, argnums=(0, 1) if mu_is_array else (0,)))

    args = (arrays0.inv_permittivities, arrays0.inv_permeabilities if mu_is_array else jnp.zeros(()))
    cfg_ck = scn.config.aset("gradient_config", fdtdx.GradientConfig(method="checkpointed", num_checkpoints=int(spec["n_ckpt"])))
    g_ref = [np.array(g) for g in make_loss(cfg_ck)(*args)]
    stats, viol, resid = {"sim_steps": 2 * T, "sim_time_fs": 0.0}, [], {}
    scale = [float(np.max(np.abs(g * mask))) for g in g_ref]
    nontrivial = bool(scale[0] > 0)
    G = _natural_gradient_scale(scn, w)
    floor = ABS_FLOOR * G  # round-off floor: six orders above eps64 * G, far below any gradient a reached detector produces
    import os
    if os.environ.get("VERIF_DEBUG"):
        print("C04 scales: ref", scale, "natural G", G, "floor", floor, flush=True)
    stats["probe_reference_gradient_zero"] = int(scale[0] == 0.0)
    stats["probe_reference_below_floor"] = int(scale[0] * TOL < floor)
    for op in spec["ops"]:
        k = int(op["k"])
        cfg = scn.config.aset("gradient_config", scn.config.gradient_config.aset("num_checkpoints_reversible", k))
        g = [np.array(x) for x in make_loss(cfg)(*args)]
        stats["sim_steps"] += 2 * T
        stats["fault_reversible_k_" + ("0" if k == 0 else "max" if k == T - 1 else "mid")] = 1
        for name, a, b, s in zip(("inv_permittivity", "inv_permeability"), g_ref, g, scale):
            d = dr.rel_diff(a * mask, b * mask, max(s, floor / TOL) if max(s, floor) > 0 else None)
            resid[name] = max(resid.get(name, 0.0), d if np.isfinite(d) else 1e300)
            if not (d <= TOL):
                diff = np.abs(a * mask - b * mask)
                cell = [int(x) for x in np.unravel_index(int(np.argmax(np.nan_to_num(diff, nan=np.inf))), diff.shape)]
                viol.append({"monitor": "gradient_mismatch", "wrt": name, "k": k, "T": T, "metric": "rel_diff", "value": d, "tolerance": TOL, "worst_cell": cell})
                break
    stats["sim_time_fs"] = stats["sim_steps"] * scn.dt * 1e15
    stats["probe_pml"] = int(any(f["kind"] == "pml" for f in spec["faces"].values()))
    stats["probe_full_tensor"] = int(spec["materials"].get("eps_tier") == "full")
    stats["probe_lossy"] = int(bool(spec["materials"].get("sigma_e_tier") or spec["materials"].get("sigma_h_tier")))
    stats["probe_magnetically_lossy"] = int(bool(spec["materials"].get("sigma_h_tier")))
    stats["probe_mu_gradient"] = int(mu_is_array)
    stats["probe_complex_output"] = int(any(jnp.iscomplexobj(v) for v in w.values()))
    sig = specgen.scene_signature(spec, [o["k"] == 0 for o in spec["ops"]], len(spec["ops"]))
    digest = dr.digest_arrays({"g": np.round(g_ref[0] / (scale[0] or 1.0), 6)}) + ":" + ",".join(f"{k}={dr.sig3(v)}" for k, v in sorted(resid.items())) + f":v{len(viol)}"
    return {"violations": viol, "stats": stats, "residuals": resid, "nontrivial": nontrivial, "signature": sig, "digest": digest}
