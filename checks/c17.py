"""C17 — phasor detectors compute the windowed discrete Fourier transform.

History = the per-step records of a field detector sharing region, schedule and interpolation mode
with the phasor detectors.  After the run (which includes a seeded crash/restore of the driver state)
the accumulated phasors must equal  sum_t w(t) f(t) exp(i w t) * (2/sum(w) | stride)  over the kept
steps, and the phasor-Poynting detectors (plane and closed surface) Re(E x H*) of those phasors,
area-integrated, with 1/2 in continuous mode.
"""
from __future__ import annotations

import numpy as np

from fdsim import specgen

PROPERTY = "C17"
LEVEL = "exploration"
RUNS = {"quick": 20, "thorough": 400}
RULE = (
    "seeded scenes (all boundary kinds, uniform/non-uniform grid, random iso eps, random initial fields + dipole, T 6-16); per scene a field "
    "detector + 2-3 phasor detectors on one box, a field detector + phasor-Poynting detector on a plane and a field detector + closed-surface "
    "phasor detector on a box, each phasor detector with seeded frequencies (1-2), component subset, window in {none, Gaussian, Tukey}, stride "
    "in {1..4, auto}, scaling in {continuous, pulse}, direction/orientation; shared random schedule per group; crash/restore at a seeded step. "
    "non-trivial = non-zero phasor compared; distinct = scene signature x (window, stride, scaling) sets"
)
REAL = ["place_objects", "forward", "PhasorDetector", "PhasorPoyntingFluxDetector", "ClosedSurfacePhasorPoyntingFluxDetector", "FieldDetector", "TemporalWindow.get_window (taken as given)"]
STUB = ["durable storage = host numpy copy"]
ASSUMPTIONS = [
    "float64; 1e-11 relative without window; 5e-6 with a window (the library stores window weights in float32)",
    "window(t) values are read from the library's TemporalWindow (C41 not claimed); the kept-step rule (every stride-th active step) is re-stated independently",
]
TECHNIQUE = "deterministic simulation: record-history oracle (windowed DFT of the field detector's per-step log) for the accumulated phasor state, across crash/restore"
LEVEL_TEXT = "Seeded exploration; each phasor-type detector is compared with a NumPy DFT of the co-scheduled field records."
LEVEL_NOTE = "float64 CPU; grids <= 8^3, T <= 16"
ALL6 = ["Ex", "Ey", "Ez", "Hx", "Hy", "Hz"]


def _rand_window(rng, T):
    k = specgen.choice(rng, ["none", "none", "gaussian", "tukey"])
    if k == "none":
        return None
    if k == "gaussian":
        return {"kind": "gaussian", "center_time_dt": float(rng.uniform(0.2, 0.8) * T), "sigma_time_dt": float(rng.uniform(0.15, 0.6) * T)}
    a = float(rng.uniform(0.0, 0.4) * T)
    return {"kind": "tukey", "start_time_dt": a, "end_time_dt": float(a + rng.uniform(0.4, 0.9) * T), "alpha": float(rng.uniform(0.1, 0.9))}


def _popts(rng, T):
    o = {"wavelengths": [float(rng.uniform(5, 16)) * specgen.SPACING for _ in range(int(rng.integers(1, 3)))], "scaling_mode": specgen.choice(rng, ["continuous", "pulse"]),
         "dft_subsample": specgen.choice(rng, [1, 1, 2, 3, 4, "auto"])}
    w = _rand_window(rng, T)
    if w:
        o["window"] = w
    return o


def generate(rng, tier, index):
    T = int(rng.integers(6, 17))
    faces = specgen.rand_faces(rng, kinds_pair=("periodic",), kinds_single=("pec", "pmc", "none"), pml=(2, 2))
    shape = specgen.fit_shape(specgen.rand_shape(rng, 4, 8), faces)
    spec = {"shape": shape, "grid": specgen.rand_grid(rng, shape, 0.4), "steps": T, "faces": faces, "key": int(rng.integers(0, 2**31))}
    spec["materials"] = {"mode": "random", "seed": int(rng.integers(0, 2**31)), "eps_tier": "iso"}
    spec["sources"] = [specgen.rand_dipole(rng, "s0", shape, specgen.inner_region(shape, faces), T, allow_switch=False)]
    spec["init_seed"] = int(rng.integers(0, 2**31))
    # one scene in three stores complex-valued fields with a genuinely complex random initial state: the accumulated phasor
    # is then the windowed DFT of a *complex* history (field detectors log it with a complex dtype)
    cplx = bool(rng.uniform() < 0.34)
    if cplx:
        spec["complex"] = True
    dets = []

    def group(prefix, box, extra_kind=None):
        sw = specgen.rand_switch(rng, T, p_default=0.4, need_active=True)
        # keep at least a few active steps so windows have support
        if sw and sum(specgen.switch_on_list(sw, T)) < 3:
            sw = None
        exact = bool(rng.uniform() < 0.6)
        base = {"box": box, "exact": exact}
        if cplx:
            base["complex_dtype"] = True
        if sw:
            base["switch"] = sw
        return base

    box = specgen.rand_box(rng, shape, min_size=1, max_size=4)
    b = group("v", box)
    comps = specgen.rand_components(rng)
    dets.append({"kind": "field", "name": "v_field", "components": ALL6, "reduce": False, **b})
    for i in range(int(rng.integers(2, 4))):
        dets.append({"kind": "phasor", "name": f"v_ph{i}", "components": comps if i else ALL6, "reduce": bool(rng.uniform() < 0.3), **_popts(rng, T), **b})
    ax = int(rng.integers(0, 3))
    pbox = specgen.rand_box(rng, shape, min_size=2)
    p = int(rng.integers(0, shape[ax]))
    pbox[ax] = [p, p + 1]
    b = group("p", pbox)
    dets.append({"kind": "field", "name": "p_field", "components": ALL6, "reduce": False, **b})
    dets.append({"kind": "phasor_poynting", "name": "p_flux", "direction": specgen.choice(rng, ["+", "-"]), "fixed_propagation_axis": ax, **_popts(rng, T), **b})
    dets.append({"kind": "phasor_poynting", "name": "p_flux_all", "direction": specgen.choice(rng, ["+", "-"]), "fixed_propagation_axis": ax, "keep_all_components": True, **_popts(rng, T), **b})
    cbox = specgen.rand_box(rng, shape, min_size=2, max_size=5)
    b = group("c", cbox)
    dets.append({"kind": "field", "name": "c_field", "components": ALL6, "reduce": False, **b})
    dets.append({"kind": "closed_phasor", "name": "c_flux", "orientation": specgen.choice(rng, ["outward", "inward"]), **_popts(rng, T), **b})
    spec["detectors"] = dets
    spec["plane_axis"] = ax
    spec["ops"] = [{"op": "crash_restore", "at": int(rng.integers(1, T))}]
    return spec


def shrink(spec):
    import copy

    out = []
    for i, d in enumerate(spec["detectors"]):
        if d["kind"] != "field":
            for key, val in (("window", None), ("dft_subsample", 1), ("scaling_mode", "pulse"), ("switch", None)):
                if d.get(key) not in (None, val):
                    s = copy.deepcopy(spec)
                    if val is None:
                        s["detectors"][i].pop(key)
                        if key == "switch":  # keep the group's schedule consistent
                            for dd in s["detectors"]:
                                if dd["name"][0] == d["name"][0]:
                                    dd.pop("switch", None)
                    else:
                        s["detectors"][i][key] = val
                    out.append(s)
            if len(d["wavelengths"]) > 1:
                s = copy.deepcopy(spec)
                s["detectors"][i]["wavelengths"] = d["wavelengths"][:1]
                out.append(s)
    if spec["grid"]["kind"] == "rect":
        s = copy.deepcopy(spec)
        s["grid"] = {"kind": "uniform", "spacing": specgen.SPACING}
        out.append(s)
    if spec.get("ops"):
        s = copy.deepcopy(spec)
        s["ops"] = []
        out.append(s)
    return out


def execute(spec):
    import jax.numpy as jnp
    from fdsim import scene as sc, driver as dr, oracles as orc
    from checks.c14 import rule_on_list, _unit_switch

    try:
        scn = sc.build_scene(spec)
    except Exception as e:
        if "apodization window sums to" in str(e):
            return {"rejected": True, "nontrivial": False, "stats": {"rejected": 1}, "digest": "rejected:window"}
        raise
    T, dt = scn.T, scn.dt
    E0, H0 = sc.random_fields(scn, spec["init_seed"], scale=1.0)
    st = dr.Stepper(scn)
    state = st.state0(scn.arrays.aset("fields->E", E0).aset("fields->H", H0))
    crash = {o["at"] for o in spec.get("ops", [])}
    stats, viol, resid = {"sim_steps": T, "sim_time_fs": T * dt * 1e15}, [], {}
    for t in range(T):
        state = st.fwd(state, 1)
        if (t + 1) in crash:
            state = dr.roundtrip(state)
            stats["fault_crash_restore"] = stats.get("fault_crash_restore", 0) + 1
    D = dr.detectors_np(state)
    widths = orc.widths_from_spec(spec)
    by = {d["name"]: d for d in spec["detectors"]}
    nontrivial = False

    def area(box, a):
        w = [widths[i][box[i][0]:box[i][1]] for i in range(3)]
        w[a] = np.ones_like(w[a])
        return w[0][:, None, None] * w[1][None, :, None] * w[2][None, None, :]

    def vol(box):
        return widths[0][box[0][0]:box[0][1]][:, None, None] * widths[1][box[1][0]:box[1][1]][None, :, None] * widths[2][box[2][0]:box[2][1]][None, None, :]

    def oracle_phasor(d, field_rec):
        """(nf, 6, x, y, z) complex phasors for detector spec d from the field history (n_active, 6, x,y,z)."""
        obj = scn.objects[d["name"]]
        on = rule_on_list(_unit_switch(d.get("switch")), T)
        active = [t for t in range(T) if on[t]]
        stride = d.get("dft_subsample", 1)
        if stride == "auto":
            stride = int(obj._dft_stride)  # resolved value is an input of the rule, not its subject
        kept = active[::stride]
        if d.get("window"):
            wfull = np.array(obj.apodization.get_window(jnp.arange(T) * dt), dtype=np.float64)
        else:
            wfull = np.ones(T)
        wk = np.array([wfull[t] for t in kept])
        scale = 2.0 / wk.sum() if d.get("scaling_mode", "continuous") == "continuous" else float(stride)
        omegas = np.array([2 * np.pi * float(wc.get_frequency()) for wc in obj.wave_characters])
        idx = {t: j for j, t in enumerate(active)}
        out = np.zeros((len(omegas), *field_rec.shape[1:]), dtype=np.complex128)
        for w_t, t in zip(wk, kept):
            ph = np.exp(1j * omegas * (t * dt))
            out += ph.reshape(-1, *([1] * (field_rec.ndim - 1))) * field_rec[idx[t]][None] * (w_t * scale)
        return out, len(kept), stride

    def cmp(name, got, want, tol, extra):
        s = max(float(np.max(np.abs(want))) if np.size(want) else 0.0, 0.0)
        d = dr.rel_diff(np.asarray(want), np.asarray(got), s if s > 0 else None)
        resid[name] = max(resid.get(name, 0.0), d if np.isfinite(d) else 1e300)
        stats["phasors_checked"] = stats.get("phasors_checked", 0) + 1
        if not (d <= tol):
            viol.append({"monitor": name, "metric": "rel_diff", "value": d, "tolerance": tol, **extra})
        return s > 0

    classes = set()
    for d in spec["detectors"]:
        if d["kind"] == "field":
            continue
        fr = D[{"v": "v_field", "p": "p_field", "c": "c_field"}[d["name"][0]] + "/fields"]
        want6, nkept, stride = oracle_phasor(d, fr)
        tol = 5e-6 if d.get("window") else 1e-11
        info = {"detector": d["name"], "window": (d.get("window") or {}).get("kind"), "stride": d.get("dft_subsample", 1), "scaling": d.get("scaling_mode", "continuous"), "kept_steps": nkept}
        classes.add((d["kind"], str(info["window"]), str(info["stride"]), info["scaling"]))
        cont = d.get("scaling_mode", "continuous") == "continuous"
        if d["kind"] == "phasor":
            sel = [ALL6.index(c) for c in d["components"]]
            want = want6[:, sel]
            if d.get("reduce"):
                V = vol(d["box"])
                want = np.sum(want * V[None, None], axis=(2, 3, 4)) / V.sum()
            nontrivial |= cmp("phasor_vs_windowed_dft", D[f"{d['name']}/phasor"][0], want, tol, info)
        elif d["kind"] == "phasor_poynting":
            a = spec["plane_axis"]
            S3 = np.real(np.cross(want6[:, :3], np.conj(want6[:, 3:]), axis=1))
            fac = (0.5 if cont else 1.0) * (-1.0 if d["direction"] == "-" else 1.0)
            obj = scn.objects[d["name"]]
            got = np.array(obj.compute_poynting_flux({k.split("/")[1]: jnp.asarray(v) for k, v in D.items() if k.startswith(d["name"] + "/")}))
            if d.get("keep_all_components"):  # (nf, 3): component b integrated with the face areas normal to b
                flux = np.stack([np.sum(S3[:, b_] * area(d["box"], b_)[None], axis=(1, 2, 3)) for b_ in range(3)], axis=1) * fac
                ref = np.stack([np.sum(np.abs(S3[:, b_]) * area(d["box"], b_)[None], axis=(1, 2, 3)) for b_ in range(3)], axis=1)
                ref = np.broadcast_to(ref.max(axis=1, keepdims=True), ref.shape)
            else:
                S = S3[:, a]
                flux = np.sum(S * area(d["box"], a)[None], axis=(1, 2, 3)) * fac
                ref = np.sum(np.abs(S) * area(d["box"], a)[None], axis=(1, 2, 3))
            if got.shape != flux.shape:
                viol.append({"monitor": "phasor_poynting_plane", "metric": "shape", "value": list(got.shape), "tolerance": list(flux.shape), **info})
                continue
            dd = float(np.max(np.abs(got - flux) / np.maximum(ref, 1e-300))) if ref.max() > 0 else 0.0
            resid["phasor_poynting_plane"] = max(resid.get("phasor_poynting_plane", 0.0), dd)
            stats["phasors_checked"] = stats.get("phasors_checked", 0) + 1
            if not (dd <= tol * 10):
                viol.append({"monitor": "phasor_poynting_plane", "metric": "rel_diff", "value": dd, "tolerance": tol * 10, **info})
        else:
            box = d["box"]
            S = np.real(np.cross(want6[:, :3], np.conj(want6[:, 3:]), axis=1))  # (nf,3,x,y,z)
            net = np.zeros(S.shape[0])
            ref = np.zeros(S.shape[0])
            for a in range(3):
                if box[a][1] - box[a][0] <= 1:
                    continue
                A = np.take(area(box, a), 0, axis=a)
                hi = np.take(S[:, a], -1, axis=1 + a)
                lo = np.take(S[:, a], 0, axis=1 + a)
                net += np.sum((hi - lo) * A[None], axis=(1, 2))
                ref += np.sum((np.abs(hi) + np.abs(lo)) * A[None], axis=(1, 2))
            net = net * (0.5 if cont else 1.0) * (-1.0 if d["orientation"] == "inward" else 1.0)
            obj = scn.objects[d["name"]]
            got = np.array(obj.compute_net_flux({k.split("/")[1]: jnp.asarray(v) for k, v in D.items() if k.startswith(d["name"] + "/")}))
            dd = float(np.max(np.abs(got - net) / np.maximum(ref, 1e-300))) if ref.max() > 0 else 0.0
            resid["phasor_poynting_closed"] = max(resid.get("phasor_poynting_closed", 0.0), dd)
            stats["phasors_checked"] = stats.get("phasors_checked", 0) + 1
            if not (dd <= tol * 10):
                viol.append({"monitor": "phasor_poynting_closed", "metric": "rel_diff", "value": dd, "tolerance": tol * 10, **info})
    stats["probe_complex_fields"] = int(bool(spec.get("complex")))
    stats["probe_complex_history"] = int(bool(spec.get("complex")) and bool(np.iscomplexobj(D["v_field/fields"])) and float(np.max(np.abs(np.imag(D["v_field/fields"])))) > 0)
    stats["probe_window"] = sum(1 for d in spec["detectors"] if d.get("window"))
    stats["probe_stride_gt1"] = sum(1 for d in spec["detectors"] if d.get("dft_subsample", 1) not in (1,))
    stats["probe_pulse_mode"] = sum(1 for d in spec["detectors"] if d.get("scaling_mode") == "pulse")
    sig = specgen.scene_signature({**spec, "detectors": []}, sorted(classes))
    digest = dr.digest_arrays(D) + ":" + ",".join(f"{k}={dr.sig3(v)}" for k, v in sorted(resid.items())) + f":v{len(viol)}"
    return {"violations": viol, "stats": stats, "residuals": resid, "nontrivial": bool(nontrivial), "signature": sig, "digest": digest}
