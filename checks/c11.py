"""C11 — forcing complex field storage reproduces the real-valued run.

Replicas: A with `use_complex_fields=None` (real storage: no non-zero Bloch phase anywhere) and B
with `use_complex_fields=True`.  Both are stepped in lockstep; after every step Re(B) must equal A
(fields, PML auxiliaries), |Im(B)| must stay below 1e-13 of the field maximum, and every detector
(field, energy, Poynting, phasor; with and without co-location) must hold the same records.  One of
the two replicas is also pushed through the library's own loop and must end in the stepped state.
"""
from __future__ import annotations

import copy

import numpy as np

from fdsim import replica as rp
from fdsim import specgen

PROPERTY = "C11"
LEVEL = "exploration"
RUNS = {"quick": 16, "thorough": 300}
TOL = 1e-12
TOL_IMAG = 1e-13
RULE = (
    "seeded random scenes 4-7 cells per axis, per-face boundaries from periodic pairs / PEC / PMC / none / PML 2-3 (no Bloch phase), uniform "
    "or non-uniform edges, per-cell random material tensors (iso / diagonal / full, optional conductivities), 1-2 sources (electric / magnetic "
    "dipoles incl. tilted, at most one uniform/Gaussian plane source, switches, cw/pulse), 1-3 detectors of all four kinds with and without "
    "co-location, real random initial field in half of the runs; each scene is built with real and with forced complex storage. non-trivial = "
    "fields non-zero at the end; distinct = boundary tuple x grid kind x material tiers x source/detector kinds x initial-field flag x loop kind"
)
REAL = ["SimulationConfig(use_complex_fields)", "place_objects", "apply_params", "forward", "run_fdtd", "custom_fdtd_forward"]
STUB = ["per-cell material arrays are written into the placed ArrayContainer", "tqdm disabled"]
ASSUMPTIONS = [
    "float64 / complex128; real parts compared at 1e-12, imaginary parts at 1e-13, both relative to the per-array max of the real run (arrays below 1e-3 of the field maximum are judged on that absolute scale)",
    "no Bloch boundary (the statement excludes a non-zero Bloch phase); initial fields are real",
    "plane sources sit on exactly isotropic planes",
]
TECHNIQUE = "deterministic simulation: real-storage and complex-storage replicas stepped in lockstep by the driver, one replica also through the real loop with a seeded cut"
LEVEL_TEXT = "Seeded search over scenes; every scene runs with both storage modes and is compared after every step. Evidence, not proof."
LEVEL_NOTE = "float64, XLA CPU single thread; the oracle is the same code with real storage"


def generate(rng, tier, index):
    spec = rp.rand_scene(rng, T=(5, 10), shape=(4, 8), pml=(2, 3), bloch_p=0.0, p_nonuniform=0.4, n_sources=(1, 2), max_plane=1)
    T = spec["steps"]
    spec["init_seed"] = int(rng.integers(0, 2**31)) if rng.uniform() < 0.5 else None
    spec["loop"] = {"replica": int(rng.integers(0, 2)), "cut": int(rng.integers(1, T)) if rng.uniform() < 0.7 else None}
    # one scene in five: a uniform plane source becomes the hard (field-overwriting) plane source of
    # fdtdx.objects.sources.source, which writes a complex carrier's real part into the fields
    hard = bool(rng.uniform() < 0.2)
    to_mode = bool(rng.uniform() < 0.6)
    for s in spec["sources"]:
        if hard and s["kind"] == "uniform_plane":
            s["kind"] = "hard_plane"
            s.pop("profile", None)
        elif to_mode and s["kind"] in ("uniform_plane", "gaussian_plane"):
            # a mode source instead (its profile comes from the mode solver, complex-valued over lossy cross-sections);
            # needs >= 6 x 6 transverse cells
            ax = [a for a in range(3) if s["box"][a][1] - s["box"][a][0] == 1][0]
            if all(s["box"][a][1] - s["box"][a][0] >= 6 for a in range(3) if a != ax):
                s["kind"] = "mode"
                s["mode_index"] = int(rng.integers(0, 2))
                s.pop("radius", None)
    # every scene also has one co-located field detector strictly inside the domain (the library records interior and
    # edge-touching regions through different code paths) and one touching a face
    shp = spec["shape"]
    if all(n >= 3 for n in shp):
        lo = [int(rng.integers(1, n - 1)) for n in shp]
        hi = [int(rng.integers(l + 1, n)) for l, n in zip(lo, shp)]
        spec["detectors"].append({"kind": "field", "name": "dint", "box": [[l, h] for l, h in zip(lo, hi)], "exact": True, "reduce": False, "components": ["Ex", "Ey", "Ez", "Hx", "Hy", "Hz"]})
    rp.add_dispersive_boxes(rng, spec, 0.3, per_axis=not [s for s in spec["sources"] if s["kind"] != "dipole"])
    return spec


def shrink(spec):
    return rp.shrinks(spec, min_sources=0)


def _split(d_cplx: dict, ref: dict, floor: float = 0.0):
    """(real parts, worst |imag| relative to the reference array max) of a dict of arrays."""
    re, worst, wk = {}, 0.0, ""
    for k, v in d_cplx.items():
        re[k] = np.real(v)
        if np.iscomplexobj(v) and v.size:
            im = np.abs(np.imag(v))
            if not np.all(np.isfinite(im)):
                return re, float("inf"), k
            s = max(float(np.max(np.abs(ref[k]))) if k in ref and ref[k].size else 0.0, floor)
            m = float(np.max(im))
            r = 0.0 if m == 0.0 else (m / s if s > 0 else float("inf"))
            if r > worst:
                worst, wk = r, k
    return re, worst, wk


def execute(spec):
    rp.setup()
    from fdsim import driver as dr

    ra = rp.base_arrays(spec)
    variants = []
    for c in (None, True):
        s = copy.deepcopy(spec)
        s["complex"] = c
        variants.append(s)
    try:
        scenes = [rp.build(s, ra) for s in variants]
    except (ValueError, NotImplementedError) as e:
        return rp.rejected(e)
    T = scenes[0].T
    mon = rp.Monitors()
    stats = {"sim_steps": 0, "sim_time_fs": 0.0, **rp.common_probes(spec)}
    cplx = [bool(np.iscomplexobj(np.array(s.arrays.fields.E))) for s in scenes]
    if cplx != [False, True]:
        raise rp.env.HarnessError(f"storage modes not as requested: {cplx}")
    stats["probe_complex"] = 1
    stats["probe_hard_plane_source"] = int(any(s["kind"] == "hard_plane" for s in spec["sources"]))
    stats["probe_dispersive"] = int(bool(spec["materials"].get("disp_objects")))
    stats["probe_mode_source"] = int(any(s["kind"] == "mode" for s in spec["sources"]))
    stats["probe_mode_source_lossy_dispersive"] = int(any(s["kind"] == "mode" for s in spec["sources"]) and bool(spec["materials"].get("disp_objects")) and bool(spec["materials"].get("sigma_e_tier")))

    arrays = [s.arrays for s in scenes]
    steppers = [dr.Stepper(s) for s in scenes]
    if spec.get("init_seed") is not None:
        E0, H0, stats["init_scale"], n = rp.balanced_init(scenes[0], steppers[0], spec["init_seed"])
        rp.count_steps(stats, n, scenes[0].dt)
        arrays = [rp.set_fields(s, E0, H0) for s in scenes]
    states = [st.state0(a) for st, a in zip(steppers, arrays)]
    phasor = {d["name"] for d in spec["detectors"] if d["kind"] == "phasor"}
    fa, g_run = None, 0.0
    for t in range(T):
        states = [st.fwd(s) for st, s in zip(steppers, states)]
        rp.count_steps(stats, 2, scenes[0].dt)
        fa, fb = dr.fields_np(states[0]), dr.fields_np(states[1])
        g = rp.field_scale(fa)
        g_run = max(g_run, g)
        re, im, ik = _split(fb, fa, rp.FLOOR * g)
        mon.dicts("real_part_vs_real_run", t, fa, re, TOL, floors=rp.FLOOR * g)
        mon.check("imaginary_part", t, im, TOL_IMAG, key=ik)
        ra_, rb_ = dr.detectors_np(states[0]), dr.detectors_np(states[1])
        # phasor records are complex in both runs and compared as such; all others must be real-typed and equal
        for k, v in rb_.items():
            if k.split("/")[0] not in phasor and np.iscomplexobj(v):
                mon.check("record_dtype", t, float("inf"), 0.0, key=k)
        mon.dicts("records_vs_real_run", t, ra_, rb_, TOL, floors=rp.record_floors(spec, g_run, ra_))
    nontrivial = bool(np.max(np.abs(fa["E"])) > 0 or np.max(np.abs(fa["H"])) > 0)

    lp = spec.get("loop") or {}
    k = int(lp.get("replica", 0))
    fired = rp.loop_check(mon, stats, scenes[k], arrays[k], states[k], lp, spec.get("init_seed") is None, TOL, ["real", "complex"][k])
    sig = specgen.scene_signature(spec, spec.get("init_seed") is not None, sorted(fired), k)
    return rp.finish(mon, stats, nontrivial, sig, fa)
