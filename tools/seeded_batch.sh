#!/bin/bash
# Usage: seeded_batch.sh <results file> <seeded-id>:<PROP>[:tier] ...   -- runs try_seeded.sh sequentially, appends verdicts
OUT=$1; shift
cd "$(dirname "$(readlink -f "$0")")/.."
for item in "$@"; do
  IFS=: read -r id prop tier <<< "$item"
  echo "=== $id vs $prop ${tier:-quick} $(date +%H:%M:%S)" >> "$OUT"
  bash tools/try_seeded.sh seeded/$id/patch.diff $prop ${tier:-quick} 2>&1 | tail -5 >> "$OUT"
done
echo "BATCH DONE $(date +%H:%M:%S)" >> "$OUT"
